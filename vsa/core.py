"""Core of the static analyser: resolved program, findings, evidence, runner.

Nothing of /repo is imported or executed here.  Sources are parsed with
``ast``; classes are resolved by a small class-hierarchy analysis (C3).
"""
import ast
import hashlib
import json
import os
import sys
import time
import traceback

VERIF = os.path.dirname(os.path.dirname(os.path.abspath(__file__)))


def repo_root():
    return os.environ.get("VSA_REPO", "/repo")


class AnalysisError(Exception):
    """The analyser cannot decide (anchor vanished, unknown syntax, floor
    missed).  Reported as ANALYSIS-ERROR, exit 2 -- never a silent pass."""


# --------------------------------------------------------------------------
# resolved program
# --------------------------------------------------------------------------
class Module:
    def __init__(self, name, path):
        self.name = name
        self.path = path
        with open(path, encoding="utf-8") as f:
            self.src = f.read()
        self.digest = hashlib.sha256(self.src.encode()).hexdigest()[:16]
        try:
            self.tree = ast.parse(self.src, filename=path)
        except SyntaxError as e:
            raise AnalysisError(f"{path} does not parse: {e}")
        from .desugar import desugar
        self.tree, self.desugared = desugar(self.tree)      # match / walrus -> the statement kinds the engines interpret
        for node in ast.walk(self.tree):
            for ch in ast.iter_child_nodes(node):
                ch._parent = node
        self.functions = {}   # top-level functions
        self.classes = {}
        self.assigns = {}     # top-level NAME = expr
        self.imports = {}     # local name -> (module, original name)
        for n in self._toplevel(self.tree.body):
            if isinstance(n, ast.FunctionDef):
                self.functions[n.name] = n
            elif isinstance(n, ast.ClassDef):
                self.classes[n.name] = n
            elif isinstance(n, ast.Assign) and len(n.targets) == 1 and isinstance(n.targets[0], ast.Name):
                self.assigns[n.targets[0].id] = n.value
            elif isinstance(n, ast.ImportFrom):
                for a in n.names:
                    self.imports[a.asname or a.name] = (("." * n.level) + (n.module or ""), a.name)
            elif isinstance(n, ast.Import):
                for a in n.names:
                    self.imports[(a.asname or a.name).split(".")[0]] = (a.name, None)

    @staticmethod
    def _toplevel(body):
        """Top-level statements, looking into module-level try/if blocks
        (collections.py defines the multidict classes inside ``try:``)."""
        for n in body:
            if isinstance(n, ast.Try):
                yield from Module._toplevel(n.body)
                yield from Module._toplevel(n.orelse)
            elif isinstance(n, ast.If):
                yield from Module._toplevel(n.body)
                yield from Module._toplevel(n.orelse)
            else:
                yield n


class ClassInfo:
    def __init__(self, repo, module, node):
        self.repo = repo
        self.module = module
        self.node = node
        self.name = node.name
        self.qname = f"{module.name}.{node.name}"
        self.methods = {}
        self.aliases = {}      # class-body NAME = expr  (non-function)
        self.decorators = {}
        for n in node.body:
            if isinstance(n, ast.FunctionDef):
                self.methods[n.name] = n
                self.decorators[n.name] = [ast.unparse(d) for d in n.decorator_list]
            elif isinstance(n, ast.Assign) and len(n.targets) == 1 and isinstance(n.targets[0], ast.Name):
                self.aliases[n.targets[0].id] = n.value
        self.base_exprs = [ast.unparse(b) for b in node.bases]


class Repo:
    PKG = "pvl"

    def __init__(self, root=None):
        self.root = root or repo_root()
        pkg = os.path.join(self.root, self.PKG)
        if not os.path.isdir(pkg):
            raise AnalysisError(f"package directory {pkg} not found")
        self.modules = {}
        for fn in sorted(os.listdir(pkg)):
            if fn.endswith(".py"):
                name = fn[:-3]
                self.modules[name] = Module(name, os.path.join(pkg, fn))
        self.classes = {}      # simple name -> ClassInfo (names are unique in pvl)
        for m in self.modules.values():
            for cname, cnode in m.classes.items():
                ci = ClassInfo(self, m, cnode)
                if cname in self.classes:
                    # keep both under qualified names; the first wins for simple lookups
                    self.classes[ci.qname] = ci
                else:
                    self.classes[cname] = ci
        self._mro = {}

    # -- lookups ---------------------------------------------------------
    def module(self, name):
        if name not in self.modules:
            raise AnalysisError(f"anchor vanished: module pvl/{name}.py")
        return self.modules[name]

    def cls(self, name):
        if name not in self.classes:
            raise AnalysisError(f"anchor vanished: class {name}")
        return self.classes[name]

    def has_cls(self, name):
        return name in self.classes

    def resolve_class_name(self, module, expr_src):
        """Name used inside *module* -> repo class simple name or None (external)."""
        name = expr_src.split(".")[-1]
        if expr_src in module.classes:
            return expr_src
        if expr_src in module.imports:
            mod, orig = module.imports[expr_src]
            if mod.startswith(".") or mod.startswith(self.PKG):
                return orig if orig in self.classes else None
            return None
        if name in self.classes and "." in expr_src:
            head = expr_src.split(".")[0]
            if head in module.imports and module.imports[head][0].startswith((".", self.PKG)):
                return name
        return None

    def bases(self, cname):
        ci = self.cls(cname)
        out = []
        for b in ci.base_exprs:
            r = self.resolve_class_name(ci.module, b)
            out.append(r if r else "ext:" + b)
        return out

    def mro(self, cname):
        """C3 linearisation; external bases are kept as 'ext:<expr>' leaves."""
        if cname in self._mro:
            return self._mro[cname]
        if cname.startswith("ext:"):
            return [cname]
        bases = self.bases(cname)
        seqs = [list(self.mro(b)) for b in bases] + [list(bases)]
        res = [cname]
        while any(seqs):
            for s in seqs:
                if not s:
                    continue
                cand = s[0]
                if not any(cand in t[1:] for t in seqs):
                    break
            else:
                raise AnalysisError(f"inconsistent MRO for {cname}")
            res.append(cand)
            for s in seqs:
                if s and s[0] == cand:
                    del s[0]
        self._mro[cname] = res
        return res

    def subclasses(self, cname, strict=False):
        out = []
        for n, ci in self.classes.items():
            if "." in n:
                continue
            if cname in self.mro(n) and (not strict or n != cname):
                out.append(n)
        return sorted(out)

    def resolve_method(self, cname, meth, after=None):
        """(defining class, FunctionDef) through the MRO of *cname*; *after*
        = start the search after that class (super())."""
        mro = self.mro(cname)
        if after is not None:
            if after not in mro:
                return None, None
            mro = mro[mro.index(after) + 1:]
        for c in mro:
            if c.startswith("ext:"):
                continue
            ci = self.classes[c]
            if meth in ci.methods:
                return c, ci.methods[meth]
        return None, None

    def resolve_attr(self, cname, attr, after=None):
        """Like resolve_method but also sees class-body aliases.  Returns
        (defcls, kind, node) with kind in {'def', 'alias', 'ext'} or None."""
        mro = self.mro(cname)
        if after is not None:
            mro = mro[mro.index(after) + 1:]
        for c in mro:
            if c.startswith("ext:"):
                return c, "ext", None
            ci = self.classes[c]
            if attr in ci.methods:
                return c, "def", ci.methods[attr]
            if attr in ci.aliases:
                return c, "alias", ci.aliases[attr]
        return None

    def module_constant(self, module, name):
        """value expression of a module-level `NAME = <expr>` (assigned exactly once), else None"""
        m = self.module(module)
        found = []
        for n in Module._toplevel(m.tree.body):
            if isinstance(n, ast.Assign) and any(isinstance(t, ast.Name) and t.id == name for t in n.targets):
                found.append(n.value)
            elif isinstance(n, ast.AnnAssign) and isinstance(n.target, ast.Name) and n.target.id == name and n.value is not None:
                found.append(n.value)
        return found[0] if len(found) == 1 else None

    def public_owner(self, module, cname, name):
        """A private helper (`_name`) is reported under the public function it was taken out of: the unique public
        function/method of the same module that reaches it through private helpers only.  Anything else (public
        names, helpers with several public callers or none) keeps its own name.  -> (class or None, name)"""
        if not name.startswith("_") or name.startswith("__"):
            return cname, name
        cache = self.__dict__.setdefault("_owner_cache", {})
        key = (module, cname, name)
        if key in cache:
            return cache[key]
        m = self.module(module)
        # callers within the module: functions calling `name(`, methods calling `self.name(` / `Cls.name(`
        units = [(None, f.name, f) for f in m.functions.values()]
        for c in m.classes:
            if c in self.classes:
                units += [(c, k, v) for k, v in self.classes[c].methods.items()]

        def callers(target):
            out = set()
            for c, fname, fn in units:
                if fname == target[1] and c == target[0]:
                    continue
                for n in ast.walk(fn):
                    if isinstance(n, ast.Call):
                        f = n.func
                        if target[0] is None and isinstance(f, ast.Name) and f.id == target[1]:
                            out.add((c, fname))
                        elif target[0] is not None and isinstance(f, ast.Attribute) and f.attr == target[1] and isinstance(f.value, ast.Name) \
                                and (f.value.id in ("self", "cls") or f.value.id in self.classes) and c is not None \
                                and (target[0] in self.mro(c) or c in self.mro(target[0])):
                            out.add((c, fname))
            return out
        seen, frontier, publics = set(), {(cname, name)}, set()
        for _ in range(8):
            nxt = set()
            for t in frontier:
                for c in callers(t):
                    if c in seen:
                        continue
                    seen.add(c)
                    if c[1].startswith("_") and not c[1].startswith("__"):
                        nxt.add(c)
                    else:
                        publics.add(c)
            frontier = nxt
            if not frontier:
                break
        res = next(iter(publics)) if len(publics) == 1 else (cname, name)
        cache[key] = res
        return res

    def function(self, module, name):
        m = self.module(module)
        if name not in m.functions:
            raise AnalysisError(f"anchor vanished: function pvl/{module}.py:{name}")
        return m.functions[name]

    # -- the same lookups with private helpers read in place (vsa.inline.inline_all): for the rules that read one
    #    function's shape or path conditions; the path engines (token protocol, languages) follow calls themselves
    def full(self, cname, meth):
        fn = self.method(cname, meth)
        key = ("m", cname, meth)
        cache = self.__dict__.setdefault("_full_cache", {})
        if key not in cache:
            from .inline import inline_all
            cache[key] = inline_all(self, cname, fn, module=self.classes[cname].module.name)
        return cache[key]

    def full_function(self, module, name):
        fn = self.function(module, name)
        key = ("f", module, name)
        cache = self.__dict__.setdefault("_full_cache", {})
        if key not in cache:
            from .inline import inline_all
            cache[key] = inline_all(self, None, fn, module=module)
        return cache[key]

    def full_resolved(self, cname, meth, after=None):
        """(defining class, FunctionDef with helpers read in place) through the MRO"""
        c, fn = self.resolve_method(cname, meth, after=after)
        if fn is None:
            return c, fn
        key = ("r", c, meth)
        cache = self.__dict__.setdefault("_full_cache", {})
        if key not in cache:
            from .inline import inline_all
            cache[key] = inline_all(self, c, fn, module=self.classes[c].module.name)
        return c, cache[key]

    def method(self, cname, meth):
        ci = self.cls(cname)
        if meth not in ci.methods:
            raise AnalysisError(f"anchor vanished: method {cname}.{meth}")
        return ci.methods[meth]

    def digest(self, names=None):
        h = hashlib.sha256()
        for n in sorted(names or self.modules):
            h.update(self.modules[n].digest.encode())
        return h.hexdigest()[:16]


def dict_entries(node):
    """[(key, value expr)] of a table written as dict(k=v, ...), {"k": v, ...} or dict({...}); None when the
    expression is neither (string keys only)."""
    if isinstance(node, ast.Call) and ast.unparse(node.func) in ("dict", "OrderedDict", "collections.OrderedDict"):
        out = []
        if len(node.args) == 1:
            inner = dict_entries(node.args[0])
            if inner is None:
                return None
            out += inner
        elif node.args:
            return None
        for k in node.keywords:
            if k.arg is None:
                inner = dict_entries(k.value)
                if inner is None:
                    return None
                out += inner
            else:
                out.append((k.arg, k.value))
        return out
    if isinstance(node, ast.Dict):
        out = []
        for k, v in zip(node.keys, node.values):
            if k is None:
                inner = dict_entries(v)
                if inner is None:
                    return None
                out += inner
            elif isinstance(k, ast.Constant) and isinstance(k.value, str):
                out.append((k.value, v))
            else:
                return None
        return out
    return None


def norm(node_or_src, limit=160):
    """Normalised anchor text of a construct: ast.unparse, single line."""
    s = node_or_src if isinstance(node_or_src, str) else ast.unparse(node_or_src)
    s = " ".join(s.split())
    return s if len(s) <= limit else s[:limit] + "…"


def stmt_head(node):
    """Unparse only the head of a compound statement."""
    if isinstance(node, ast.Try):
        return "try/" + ",".join(handler_name(h) for h in node.handlers)
    if isinstance(node, (ast.If, ast.While)):
        return type(node).__name__.lower() + " " + norm(node.test)
    if isinstance(node, ast.For):
        return f"for {norm(node.target)} in {norm(node.iter)}"
    if isinstance(node, ast.ExceptHandler):
        return "except " + handler_name(node)
    return norm(node)


def handler_name(h):
    return ast.unparse(h.type) if h.type is not None else "<bare>"


def enclosing_function(node):
    n = node
    while n is not None and not isinstance(n, ast.FunctionDef):
        n = getattr(n, "_parent", None)
    return n


def loc(module, node):
    return f"pvl/{module.name}.py:{getattr(node, 'lineno', '?')}"


# --------------------------------------------------------------------------
# findings
# --------------------------------------------------------------------------
class Finding:
    def __init__(self, rule, function, anchor, message, where="", witness=None, extra=None):
        self.rule = rule
        self.function = function          # qualified function / class / table
        self.anchor = anchor              # normalised construct text, no line numbers
        self.message = message
        self.where = where                # file:line (diagnostic only, not part of the key)
        self.witness = witness
        self.extra = extra or {}

    @property
    def key(self):
        return f"{self.rule}|{self.function}|{self.anchor}"

    def to_json(self):
        d = {"rule": self.rule, "function": self.function, "anchor": self.anchor,
             "key": self.key, "message": self.message, "where": self.where}
        if self.witness is not None:
            d["witness"] = self.witness
        if self.extra:
            d["extra"] = self.extra
        return d


class Obligation:
    """One rule instance that was evaluated."""

    def __init__(self, rule, construct, status="discharged", detail="", nontrivial=True):
        self.rule = rule
        self.construct = construct
        self.status = status      # discharged | violated | triaged
        self.detail = detail
        self.nontrivial = nontrivial

    def to_json(self):
        return {"rule": self.rule, "construct": self.construct, "status": self.status,
                "detail": self.detail}


class Result:
    def __init__(self, prop):
        self.prop = prop
        self.findings = []
        self.obligations = []
        self.triaged = []
        self.stats = {}
        self.explanation = ""
        self.assumptions = []
        self.samples = []
        self.notes = []

    def add(self, finding):
        # de-duplicate by key
        for f in self.findings:
            if f.key == finding.key:
                return f
        self.findings.append(finding)
        return finding

    def triage(self, finding, reason):
        """Conditional triage decided by a rule set (the reason names the rule it depends on)."""
        if finding in self.findings:
            self.findings.remove(finding)
        self.triaged.append((finding, reason))

    def oblige(self, rule, construct, ok=True, detail="", nontrivial=True):
        self.obligations.append(Obligation(rule, construct, "discharged" if ok else "violated",
                                           detail, nontrivial))

    def stat(self, k, v=1, add=True):
        if add:
            self.stats[k] = self.stats.get(k, 0) + v
        else:
            self.stats[k] = v

    def floor(self, what, got, minimum):
        """Instance floor: a rule that matches fewer instances than confirmed
        by hand is an analysis error, never a vacuous pass."""
        self.stats["floor:" + what] = got
        if got < minimum:
            raise AnalysisError(f"instance floor missed: {what}: found {got}, expected at least {minimum}")


def load_json(path, default):
    try:
        with open(path) as f:
            return json.load(f)
    except FileNotFoundError:
        return default


def known_findings():
    d = load_json(os.path.join(VERIF, "known_findings.json"), {"findings": [], "fixed": []})
    return d


def triage_table():
    from . import triage
    return triage.TABLE


# --------------------------------------------------------------------------
# runner
# --------------------------------------------------------------------------
def run_isolated(rule_fn, repo, res, tier):
    """Runs the statements of a rule set's run() one by one, so that an ANALYSIS-ERROR in one rule (a construct its
    engine does not know) does not hide what the other rules of the property find.  -> list of error texts.
    A statement that needs a name an earlier failed statement would have bound is skipped (and listed)."""
    import inspect
    mod = inspect.getmodule(rule_fn)
    try:
        src = inspect.getsource(mod)
        tree = ast.parse(src)
        fn = [n for n in tree.body if isinstance(n, ast.FunctionDef) and n.name == rule_fn.__name__][0]
        if any(isinstance(n, (ast.Return, ast.Yield, ast.YieldFrom)) for st in fn.body for n in ast.walk(st)
               if not isinstance(st, (ast.FunctionDef, ast.ClassDef))):
            raise ValueError("run() has a return")
    except (OSError, TypeError, IndexError, ValueError):
        rule_fn(repo, res, tier)
        return []
    ns = dict(mod.__dict__)
    params = [a.arg for a in fn.args.args]
    ns.update(dict(zip(params, (repo, res, tier))))
    errors = []
    for st in fn.body:
        code = compile(ast.Module(body=[st], type_ignores=[]), getattr(mod, "__file__", "<rules>"), "exec")
        try:
            exec(code, ns)
        except AnalysisError as e:
            errors.append(str(e))
        except NameError as e:
            if not errors:
                raise
            errors.append(f"(skipped `{norm(st, 50)}`: {e})")
    return errors


def run_check(prop, tier, rule_fn, replay=None):
    t0 = time.time()
    seed = int(os.environ.get("VERIF_SEED", "0") or 0)
    evdir = os.environ.get("VSA_EVIDENCE_DIR") or os.path.join(VERIF, "evidence")
    evidence_path = os.path.join(evdir, f"{prop}.json")
    os.makedirs(os.path.dirname(evidence_path), exist_ok=True)
    try:
        repo = Repo()
        res = Result(prop)
        from . import flow
        flow.configure(repo)
        analysis_errors = run_isolated(rule_fn, repo, res, tier)
        if analysis_errors and not res.findings:
            raise AnalysisError("; ".join(analysis_errors))
    except AnalysisError as e:
        print(f"ANALYSIS-ERROR property={prop} {e}")
        _write_error_evidence(evidence_path, prop, tier, seed, str(e), time.time() - t0)
        return 2
    except Exception:
        tb = traceback.format_exc()
        print(f"ANALYSIS-ERROR property={prop} internal error\n{tb}")
        _write_error_evidence(evidence_path, prop, tier, seed, tb[-2000:], time.time() - t0)
        return 2

    # thorough tier: armed-rule self-check (evidence only, never a VIOLATION) ------
    selfcheck = None
    if tier == "thorough" and not os.environ.get("VSA_NO_SELFCHECK"):
        try:
            from . import selftest
            sc = selftest.run_all(prop)
            selfcheck = {
                "operators": len(sc),
                "armed_instances": sum(1 for r in sc if r["status"] == "fired"),
                "selftest_skipped": [r["op"] + ": " + r.get("reason", "") for r in sc if r["status"] == "skipped"],
                "selftest_missed": [r for r in sc if r["status"] == "missed"],
                "fired": [{"op": r["op"], "finding": r.get("finding", "")[:160]} for r in sc if r["status"] == "fired"],
                "clean_copy_exit": selftest.run_clean(prop),
            }
            for r in selfcheck["selftest_missed"]:
                print(f"SELF-CHECK-MISSED property={prop} operator={r['op']}: the seeded fault was not reported "
                      f"(exit {r.get('exit')}); this is a weakness of the checker, not a violation of the property")
        except Exception:
            selfcheck = {"error": traceback.format_exc()[-800:]}

    # triage + known findings ------------------------------------------------
    table = triage_table()
    kf = known_findings()
    known = {}
    for e in kf.get("findings", []):
        if prop in e.get("properties", []):
            known[e["key"]] = e
    violations, knowns, triaged = [], [], list(res.triaged)
    def lookup(key):
        t = table.get(key)
        if t is None:
            for k, v in table.items():
                if k.endswith("*") and key.startswith(k[:-1]):
                    return v
        return t
    for f in res.findings:
        t = lookup(f.key)
        if t is not None and t.get("condition") is not None and not t["condition"](repo):
            t = None                 # conditional triage: the fact the entry rests on no longer holds in this tree
        if t is not None and (t.get("properties") is None or prop in t["properties"]):
            triaged.append((f, t["reason"]))
            continue
        if f.key in known:
            knowns.append((f, known[f.key]))
        else:
            violations.append(f)

    for f, e in knowns:
        print(f"KNOWN-FINDING: property={prop} {f.key} -- {e.get('what', f.message)}")
    replay_dir = os.path.join(evdir, "replay")
    for i, f in enumerate(violations):
        os.makedirs(replay_dir, exist_ok=True)
        rp = os.path.join(replay_dir, f"{prop}-{hashlib.sha1(f.key.encode()).hexdigest()[:10]}.json")
        with open(rp, "w") as fh:
            json.dump({"property": prop, **f.to_json()}, fh, indent=1)
        print(f"FINDING rule={f.rule} at {f.where or f.function}: {f.message}")
        if f.witness is not None:
            print(f"        witness: {f.witness!r}")
        print(f"VIOLATION property={prop} replay={rp}")

    # evidence -----------------------------------------------------------------
    n_obl = len(res.obligations)
    n_dis = sum(1 for o in res.obligations if o.status == "discharged")
    nontrivial = len({(o.rule, o.construct) for o in res.obligations if o.nontrivial})
    samples = res.samples[:12] + [o.to_json() for o in res.obligations[:12]]
    ev = {
        "property_id": prop,
        "tier": tier,
        "seed": seed,
        "level": "other",
        "coverage": {
            "explanation": res.explanation,
            "rule": "one obligation per rule instance found in /repo's current source (handlers, call sites, "
                    "functions x contexts, table entries, language inclusions); non-trivial = the rule's "
                    "precondition matched a construct (not vacuous); distinct = by (rule, construct)",
            "obligations": n_obl,
            "discharged": n_dis,
            "evaluations": max(n_obl, int(res.stats.get("evaluations", 0))),
            "distinct_nontrivial": nontrivial,
            "samples": samples,
            "stats": res.stats,
            "known_findings": [f.key for f, _ in knowns],
            "triaged": [{"key": f.key, "reason": r} for f, r in triaged],
            "violations": [f.to_json() for f in violations],
            "repo_digest": repo.digest(),
            "repo_root": repo.root,
            "notes": res.notes + ["ANALYSIS-ERROR in one rule (the others ran): " + e_ for e_ in analysis_errors],
            "self_check": selfcheck,
        },
        "assumptions": res.assumptions,
        "wall_s": round(time.time() - t0, 3),
        "violations": len(violations),
    }
    with open(evidence_path, "w") as fh:
        json.dump(ev, fh, indent=1, default=str)
    extra = ""
    if selfcheck and "operators" in selfcheck:
        extra = (f"; self-check: {selfcheck['armed_instances']}/{selfcheck['operators']} seeded faults reported, "
                 f"{len(selfcheck['selftest_skipped'])} skipped, {len(selfcheck['selftest_missed'])} missed, "
                 f"clean copy exit {selfcheck['clean_copy_exit']}")
    for e_ in analysis_errors:
        print(f"ANALYSIS-ERROR property={prop} {e_}")
    print(f"{prop} {tier}: {n_obl} obligations, {n_dis} discharged, {len(knowns)} known finding(s), "
          f"{len(triaged)} triaged, {len(violations)} violation(s), {ev['wall_s']} s{extra}")
    if violations:
        return 1
    return 2 if analysis_errors else 0


def _write_error_evidence(path, prop, tier, seed, msg, wall):
    ev = {"property_id": prop, "tier": tier, "seed": seed, "level": "other",
          "coverage": {"explanation": "ANALYSIS-ERROR: " + msg, "obligations": 0, "discharged": 0},
          "wall_s": round(wall, 3), "violations": 0}
    with open(path, "w") as fh:
        json.dump(ev, fh, indent=1)
