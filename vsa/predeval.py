"""Language-valued partial evaluator over the ASTs of pvl's string predicates,
encoder quoting decisions and decoder methods (DESIGN 2.7).

For a function f(self, value) it computes, as DFAs over *the string under
test*:  T (returns truthy), F (falsy / falls off the end), ID (returns the
input string itself), V (returns some other value), E (raises ValueError).
Concrete values come from the resolved grammar tables; nothing of pvl's
behaviour is executed.  An atom outside the supported vocabulary raises
Unsupported -> ANALYSIS-ERROR, never a guess.
"""
import ast
import copy
import re

from . import strlang as SL
from .strlang import DFA, rx, anyof, star, contains_any_char, contains_substr, union, concat, EVERYTHING, EMPTY
from .core import AnalysisError
from .inline import clone


class Unsupported(AnalysisError):
    pass


class Conc:                      # concrete python value
    def __init__(self, v):
        self.v = v

    def __repr__(self):
        return f"Conc({self.v!r})"


class Str:                       # the string under test (or an alias / str() of it)
    decoder_cls = None           # for a Token built around the string: the class of the decoder it consults


class TokenStr(Str):
    def __init__(self, decoder_cls):
        self.decoder_cls = decoder_cls


class Match:                     # "is not None" language of a variable (regex match, or value-or-None)
    def __init__(self, d, pattern=None):
        self.d, self.pattern = d, pattern


class MatchGen:                  # a generator of <regex>.fullmatch(s) over a table of regexes
    def __init__(self, ds):
        self.ds = ds


class GroupDict:
    def __init__(self, m):
        self.m = m


class Unknown:                    # a local whose value derives from the string under test in a way that is not modelled
    pass


UNKNOWN = Unknown()


class Opaque(Exception):
    """condition on a run-time value that does not depend on the classification of the string"""


class Bool:
    def __init__(self, d):
        self.d = d


class Folded:                    # value.casefold() / .lower() / .upper() of the string under test, kept in a local
    def __init__(self, how):
        self.how = how


class Part:                      # head / tail of the string under test around the first occurrence of sep
    def __init__(self, kind, sep):
        self.kind, self.sep = kind, sep


class StrMeth:                   # a bound method of the string under test kept in a local: test = value.startswith
    def __init__(self, attr):
        self.attr = attr


class Derived:
    """A string computed from the string under test by a chain of transforms with exact pre-images:
    ("strip"|"lstrip"|"rstrip", chars), ("from", k) = x[k:], ("upto", m) = x[:-m] (m > 0),
    ("head"|"tail", c) = x.partition(c)[0|2] for a single character c."""

    def __init__(self, chain):
        self.chain = tuple(chain)

    def then(self, kind, arg):
        return Derived(self.chain + ((kind, arg),))


def _preimage(kind, arg, L):
    """{x | transform(x) in L}"""
    if kind in ("strip", "lstrip", "rstrip"):
        cs = SL.syms(arg)
        run = star(cs) if arg else SL.EPSILON
        core = L
        if kind in ("strip", "lstrip") and arg:
            core = core - SL.first_in(cs)
        if kind in ("strip", "rstrip") and arg:
            core = core - SL.last_in(cs)
        out = core
        if kind in ("strip", "lstrip"):
            out = concat(run, out)
        if kind in ("strip", "rstrip"):
            out = concat(out, run)
        if kind == "strip" and arg and L.accepts(""):
            out = out | run                 # a run of stripped characters only: the result is empty
        return out
    if kind == "from":
        k = arg
        if k == 0:
            return L
        out = concat(SL.length_eq(k), L)
        if L.accepts(""):
            out = out | ~SL.length_gt(k - 1)
        return out
    if kind == "upto":
        m = arg
        out = concat(L, SL.length_eq(m))
        if L.accepts(""):
            out = out | ~SL.length_gt(m - 1)
        return out
    if kind == "removeprefix":
        # x.removeprefix(p) = x[len(p):] when x starts with p, else x itself
        return concat(SL.lit(arg), L) | (L - SL.startswith(arg))
    if kind == "removesuffix":
        return concat(L, SL.lit(arg)) | (L - SL.endswith(arg))
    if kind in ("head", "tail"):
        c = SL.syms([arg])
        noc = ~contains_any_char(c)
        if kind == "head":
            return concat(L & noc, SL.EPSILON | concat(SL.lit(arg), EVERYTHING))
        out = concat(concat(noc, SL.lit(arg)), L)
        if L.accepts(""):
            out = out | noc
        return out
    raise Unsupported("transform " + kind)


def pullback(chain, L):
    for kind, arg in reversed(chain):
        L = _preimage(kind, arg, L)
    return L


_ZERO_TEXT = {
    # texts int() / float() / Decimal() read as zero (white space around them is stripped by those constructors)
    "decode_decimal": r"[ \t\n\r\f\v]*[+-]?((0(_?0)*)(\.(0(_?0)*)?)?|\.(0(_?0)*))([eE][+-]?[0-9](_?[0-9])*)?[ \t\n\r\f\v]*",
    # radix#digits#: zero when every digit is 0
    "decode_non_decimal": r"[+-]?[0-9]+#[+-]?0+#",
}
_ZERO_CACHE = {}


def _zero_lang(mname):
    if mname not in _ZERO_CACHE:
        _ZERO_CACHE[mname] = rx(_ZERO_TEXT[mname])
    return _ZERO_CACHE[mname]


class _SelfProxy:
    """`self` in table expressions: exposes data attributes only."""

    def __init__(self, ctx, decoder=False, evaluator=None):
        object.__setattr__(self, "_ctx", ctx)
        object.__setattr__(self, "_dec", decoder)
        object.__setattr__(self, "_ev", evaluator)

    def __getattr__(self, name):
        ctx = object.__getattribute__(self, "_ctx")
        ev = object.__getattribute__(self, "_ev")
        isdec = object.__getattribute__(self, "_dec")
        if name == "grammar":
            return ctx.grammar
        if name == "decoder" and not isdec:
            return _SelfProxy(ctx, decoder=True, evaluator=ev)
        if name == "width" and not isdec:
            return ctx.width
        if name in ctx.options and not name.startswith("$") and not isdec:
            return ctx.options[name]
        # a data attribute the constructor builds from the tables: self.X = <table expression> in __init__
        if ev is not None and not name.startswith("__"):
            cls = ctx.decoder_cls if (isdec or ev.cls in ctx.repo.subclasses("PVLDecoder")) else ev.cls
            # a class-level constant (NAME = <literal / table expression> in a class body of the MRO)
            for c in ctx.repo.mro(cls):
                if c.startswith("ext:"):
                    continue
                ci = ctx.repo.classes[c]
                if name in ci.methods:
                    break
                if name in ci.aliases:
                    v = ci.aliases[name]
                    try:
                        return ast.literal_eval(v)
                    except (ValueError, SyntaxError):
                        sub = Eval(ctx, cls, c, {})
                        return sub.conc(v)
            for c in ctx.repo.mro(cls):
                if c.startswith("ext:"):
                    continue
                init = ctx.repo.classes[c].methods.get("__init__")
                if init is None:
                    continue
                for n in ast.walk(init):
                    if isinstance(n, ast.Assign) and len(n.targets) == 1 and ast.unparse(n.targets[0]) == f"self.{name}" \
                            and not isinstance(n.value, ast.Name):
                        sub = Eval(ctx, cls, c, {})
                        return sub.conc(n.value)
        raise AttributeError(name)


class Meth:                      # a bound method of self (or of self.decoder), from a literal tuple (self.a, self.b) or an argument
    def __init__(self, name, owner="self"):
        self.name, self.owner = name, owner

    def __repr__(self):
        return f"Meth({self.owner}.{self.name})"


STR = Str()


class Ctx:
    """One pairing: the class whose method is evaluated, the resolved grammar
    instance, the decoder class, encoder options that are read by predicates."""

    def __init__(self, repo, grammar, decoder_cls, encoder_cls=None, width=80, options=None):
        self.repo, self.grammar, self.decoder_cls, self.encoder_cls, self.width = repo, grammar, decoder_cls, encoder_cls, width
        self.options = dict(options or {})
        self.memo = {}
        self.visited = []
        self.subs = {}

    def with_decoder(self, decoder_cls):
        """The same pairing seen by an object that consults another decoder class."""
        if decoder_cls is None or decoder_cls == self.decoder_cls:
            return self
        if decoder_cls not in self.subs:
            c = Ctx(self.repo, self.grammar, decoder_cls, self.encoder_cls, self.width, self.options)
            c.visited = self.visited
            self.subs[decoder_cls] = c
        return self.subs[decoder_cls]

    def token_default_decoder(self):
        """Class Token.__init__ instantiates when no decoder is passed (abstract interpretation of the constructor)."""
        from . import ctor
        g = ctor.Inst(type(self.grammar).__name__)
        try:
            return ctor.attr_class(self.repo, "Token", "decoder", content=ctor.Const("x"), grammar=g)
        except AnalysisError as x:
            raise Unsupported(str(x))


def resolve(ctx, cls, name, after=None):
    return ctx.repo.resolve_method(cls, name, after=after)


def run(cls, fname, ctx, after=None, bind=None):
    """Evaluate method *fname* resolved on class *cls* with the string as its value argument.  *bind*: further
    parameters bound to method references (a helper that is handed `self.decoder.decode_x`)."""
    defcls, fn = resolve(ctx, cls, fname, after)
    if fn is None:
        raise Unsupported(f"no method {cls}.{fname}")
    key = (defcls, fname, cls) if not bind else (defcls, fname, cls, tuple(sorted((k, repr(v)) for k, v in bind.items())))
    if key in ctx.memo:
        if ctx.memo[key] is None:
            raise Unsupported(f"recursive predicate {cls}.{fname}")
        return ctx.memo[key]
    ctx.memo[key] = None
    ctx.visited.append(f"{defcls}.{fname}")
    params = [a.arg for a in fn.args.args]
    env = {}
    is_static = "staticmethod" in ctx.repo.classes[defcls].decorators.get(fname, [])
    if cls == "Token" or defcls == "Token":
        env["self"] = STR                   # a Token *is* the string
    vparams = params if is_static else params[1:]
    for k, v in (bind or {}).items():
        env[k] = Conc(v)
    free = [p_ for p_ in vparams if p_ not in (bind or {})]
    if free and not (bind and (cls == "Token" or defcls == "Token") and any(isinstance(v_, Meth) for v_ in bind.values())):
        env[free[0]] = STR                  # the value argument
    ev = Eval(ctx, cls, defcls, env)
    try:
        out = ev.block(fn.body, EVERYTHING)
    except BaseException:
        ctx.memo.pop(key, None)          # not a recursion: the evaluation failed; report the real reason next time too
        raise
    res = {k: out.get(k, EMPTY) for k in ("T", "F", "ID", "V", "E")}
    res["F"] = res["F"] | out.get("N", EMPTY)      # falling off the end returns None (falsy)
    res["NONE"] = out.get("NONE", EMPTY) | out.get("N", EMPTY)     # the part of F on which the value is None
    ctx.memo[key] = res
    return res

class Eval:
    def __init__(self, ctx, cls, defcls, env):
        self.ctx, self.cls, self.defcls, self.env = ctx, cls, defcls, dict(env)

    # ---- concrete expression evaluation (grammar tables, constants)
    def conc(self, e):
        """Constant folding of an expression over the resolved grammar tables,
        encoder options and concrete locals.  Only data is touched: builtins on
        tuples/sets/dicts/strings of the grammar instance -- no method of pvl
        is called (a call on the self proxy is Unsupported)."""
        selfattr = {id(n.value) for n in ast.walk(e) if isinstance(n, ast.Attribute) and isinstance(n.value, ast.Name)
                    and n.value.id == "self"}
        for n in ast.walk(e):
            if isinstance(n, ast.Name) and isinstance(n.ctx, ast.Load) and id(n) not in selfattr:
                if n.id in self.env and not isinstance(self.env[n.id], Conc):
                    raise Unsupported(f"not concrete: {n.id} in {ast.unparse(e)[:60]}")
            if isinstance(n, ast.Call) and isinstance(n.func, ast.Attribute) and isinstance(n.func.value, ast.Name) \
                    and n.func.value.id == "self":
                raise Unsupported(f"method call in a table expression: {ast.unparse(n)[:60]}")
            if isinstance(n, (ast.Lambda, ast.Await, ast.Yield, ast.YieldFrom, ast.NamedExpr)):
                raise Unsupported("conc " + ast.unparse(e)[:60])
        import itertools
        ns = {k: v.v for k, v in self.env.items() if isinstance(v, Conc)}
        ns["self"] = _SelfProxy(self.ctx, evaluator=self)
        ns["chain"] = itertools.chain
        # module-level literal tables of the module that defines the method (NAME = <literal>, assigned once)
        if self.defcls in self.ctx.repo.classes:
            modname = self.ctx.repo.classes[self.defcls].module.name
            for n in ast.walk(e):
                if isinstance(n, ast.Name) and isinstance(n.ctx, ast.Load) and n.id not in ns and n.id not in self.env and id(n) not in selfattr:
                    mc = self.ctx.repo.module_constant(modname, n.id)
                    if mc is not None:
                        try:
                            ns[n.id] = ast.literal_eval(mc)
                        except (ValueError, SyntaxError):
                            pass
        safe = {"set": set, "list": list, "tuple": tuple, "frozenset": frozenset, "sorted": sorted, "dict": dict,
                "len": len, "str": str, "min": min, "max": max, "any": any, "all": all, "reversed": reversed,
                "enumerate": enumerate, "zip": zip, "int": int, "float": float, "bool": bool, "range": range}
        try:
            code = compile(ast.Expression(body=e), "<table-expression>", "eval")
            return eval(code, {"__builtins__": safe}, ns)
        except Unsupported:
            raise
        except Exception as x:
            raise Unsupported(f"conc {ast.unparse(e)[:60]}: {type(x).__name__}")

    def is_str(self, e):
        """does expression denote the string under test?"""
        if isinstance(e, ast.Name):
            return isinstance(self.env.get(e.id), Str) or e.id == "$value"
        if isinstance(e, ast.Call) and isinstance(e.func, ast.Name) and e.func.id == "str" and len(e.args) == 1:
            return self.is_str(e.args[0])
        return False

    def mentions_str(self, e):
        for n in ast.walk(e):
            if isinstance(n, ast.Name) and (isinstance(self.env.get(n.id), (Str, Match, Part, Folded, Bool, Unknown, Derived)) or n.id == "$value"):
                return True
        return False

    def argkind(self, a):
        """How an argument expression derives from the string under test."""
        if self.is_str(a):
            return ("str",)
        if isinstance(a, ast.Subscript) and self.is_str(a.value) and isinstance(a.slice, ast.Slice) and a.slice.upper is None \
                and a.slice.step is None and isinstance(a.slice.lower, ast.Constant) and a.slice.lower.value == 1:
            return ("slice1",)
        if isinstance(a, ast.Name) and isinstance(self.env.get(a.id), Part):
            p = self.env[a.id]
            return (p.kind, p.sep)
        return None

    def derived_in(self, e):
        return [n.id for n in ast.walk(e) if isinstance(n, ast.Name) and isinstance(self.env.get(n.id), Derived)]

    def cond_derived(self, e, reach):
        """a condition on a derived string: its language over the derived string, pulled back through the transforms"""
        names = self.derived_in(e)
        chains = {self.env[n].chain for n in names}
        if len(chains) != 1:
            raise Unsupported("condition over two derived strings: " + ast.unparse(e)[:60])
        env = {}
        for k, v in self.env.items():
            if isinstance(v, Derived):
                env[k] = STR
            elif isinstance(v, Conc) or v is None:
                env[k] = v
            elif k in {n.id for n in ast.walk(e) if isinstance(n, ast.Name)}:
                raise Unsupported("condition over a derived string and the string itself: " + ast.unparse(e)[:60])
        sub = Eval(self.ctx, self.cls, self.defcls, env)
        L = sub.cond0(e, EVERYTHING)
        return reach & pullback(next(iter(chains)), L)

    def derive(self, v):
        """expression -> Derived value when it is a modelled transform of the string under test (or of a derived one)"""
        base = None
        def chain_of(x):
            if self.is_str(x):
                return ()
            if isinstance(x, ast.Name) and isinstance(self.env.get(x.id), Derived):
                return self.env[x.id].chain
            if isinstance(x, ast.Call) and isinstance(x.func, ast.Name) and x.func.id == "str" and len(x.args) == 1 and not x.keywords:
                return chain_of(x.args[0])
            if isinstance(x, ast.Call) and isinstance(x.func, ast.Attribute) and x.func.attr in ("strip", "lstrip", "rstrip") \
                    and len(x.args) == 1 and not x.keywords:
                c = chain_of(x.func.value)
                if c is None:
                    return None
                chars = self.conc(x.args[0])
                if not isinstance(chars, str):
                    raise Unsupported("strip argument " + ast.unparse(x.args[0])[:40])
                return c + ((x.func.attr, "".join(sorted(set(chars)))),)
            if isinstance(x, ast.Call) and isinstance(x.func, ast.Attribute) and x.func.attr in ("removeprefix", "removesuffix") \
                    and len(x.args) == 1 and not x.keywords:
                c = chain_of(x.func.value)
                if c is None:
                    return None
                p_ = self.conc(x.args[0])
                if not isinstance(p_, str):
                    raise Unsupported("removeprefix argument " + ast.unparse(x.args[0])[:40])
                return c if p_ == "" else c + ((x.func.attr, p_),)
            if isinstance(x, ast.Subscript) and isinstance(x.slice, ast.Slice) and x.slice.step is None:
                c = chain_of(x.value)
                if c is None:
                    return None
                lo = self.conc(x.slice.lower) if x.slice.lower is not None else 0
                hi = self.conc(x.slice.upper) if x.slice.upper is not None else None
                if not isinstance(lo, int) or lo < 0 or not (hi is None or (isinstance(hi, int) and hi < 0)):
                    raise Unsupported("slice " + ast.unparse(x)[:40])
                if lo:
                    c = c + (("from", lo),)
                if hi is not None:
                    c = c + (("upto", -hi),)
                return c
            if isinstance(x, ast.Subscript) and isinstance(x.value, ast.Call) and isinstance(x.value.func, ast.Attribute) \
                    and x.value.func.attr == "partition" and len(x.value.args) == 1:
                c = chain_of(x.value.func.value)
                if c is None:
                    return None
                sep, i = self.conc(x.value.args[0]), self.conc(x.slice)
                if not (isinstance(sep, str) and len(sep) == 1 and i in (0, 2)):
                    raise Unsupported("partition " + ast.unparse(x)[:40])
                return c + (("head" if i == 0 else "tail", sep),)
            return None
        c = chain_of(v)
        if c:
            return Derived(c)
        return None

    def lift_derived(self, e):
        """a condition that applies a modelled transform to the string in place (`s.lstrip("+-").casefold() in T`,
        `s[1:-1].isdigit()`) is the same condition on a local bound to the transformed string"""
        hits = []

        def find(n, top=True):
            if isinstance(n, (ast.Call, ast.Subscript)) and not self.is_str(n):
                try:
                    d = self.derive(n)
                except Unsupported:
                    d = None
                if d is not None:
                    hits.append((n, d))
                    return
            for ch in ast.iter_child_nodes(n):
                find(ch, False)
        find(e)
        if not hits:
            return e
        new = clone(e)
        # positions correspond between e and its clone
        pairs = list(zip(ast.walk(e), ast.walk(new)))
        for k, (node, d) in enumerate(hits):
            name = f"$d{k}"
            self.env[name] = d
            twin = next(b for a, b in pairs if a is node)

            class R(ast.NodeTransformer):
                def visit(self, n):
                    if n is twin:
                        return ast.copy_location(ast.Name(id=name, ctx=ast.Load()), n)
                    return super().visit(n)
            new = R().visit(new)
        return ast.fix_missing_locations(new)

    def cond(self, e, reach):
        if self.derived_in(e):
            return self.cond_derived(e, reach)
        try:
            return self.cond0(e, reach)
        except Unsupported:
            # a transform applied to the string in place: the same condition on the transformed string
            if isinstance(e, (ast.Compare, ast.Call)) and any(isinstance(n, ast.Attribute) and n.attr in ("strip", "lstrip", "rstrip", "partition")
                                                               or isinstance(n, ast.Subscript) for n in ast.walk(e)):
                saved = dict(self.env)
                try:
                    e2 = self.lift_derived(e)
                    if e2 is not e and self.derived_in(e2):
                        return self.cond_derived(e2, reach)
                except Unsupported:
                    pass
                finally:
                    self.env = saved
            if not self.mentions_str(e):
                raise Opaque(ast.unparse(e))
            raise

    # ---- conditions: language (within reach) where expr is truthy
    def cond0(self, e, reach):
        if isinstance(e, ast.BoolOp):
            if isinstance(e.op, ast.And):
                cur = reach
                for v in e.values:
                    cur = self.cond(v, cur)
                return cur
            acc, rest = EMPTY, reach
            for v in e.values:
                t = self.cond(v, rest)
                acc, rest = acc | t, rest - t
            return acc
        if isinstance(e, ast.UnaryOp) and isinstance(e.op, ast.Not):
            return reach - self.cond(e.operand, reach)
        if isinstance(e, ast.Constant):
            return reach if e.value else EMPTY
        if isinstance(e, ast.Attribute) and ast.unparse(e).startswith("self."):
            return reach if self.conc(e) else EMPTY
        if isinstance(e, ast.Name):
            v = self.env.get(e.id)
            if isinstance(v, (Match, Bool)):
                return reach & v.d
            if isinstance(v, Conc):
                return reach if v.v else EMPTY
            if isinstance(v, Str):
                return reach - SL.EPSILON          # a string is true when it is not empty
            raise Unsupported("cond name " + e.id)
        if isinstance(e, ast.Compare) and len(e.ops) == 1:
            op, l, r = e.ops[0], e.left, e.comparators[0]
            if isinstance(op, (ast.In, ast.NotIn)) and isinstance(r, ast.Name) and isinstance(self.env.get(r.id), GroupDict):
                # 'group' in match.groupdict(): decided by the pattern (every named group is a key, matched or not)
                gd = self.env[r.id]
                if gd.m.pattern is None or not (isinstance(l, ast.Constant) and isinstance(l.value, str)):
                    raise Opaque(ast.unparse(e))
                has = l.value in re.compile(gd.m.pattern).groupindex
                return reach if (has == isinstance(op, ast.In)) else EMPTY
            if isinstance(op, (ast.In, ast.NotIn)):
                if self.is_str(r):                              # X in s
                    x = self.conc(l)
                    d = contains_substr(x)
                elif self.is_str(l):                            # s in TABLE
                    d = anyof([str(x) for x in self.conc(r)])
                elif isinstance(l, ast.Call) and isinstance(l.func, ast.Attribute) and not l.args \
                        and l.func.attr in ("casefold", "lower", "upper") and self.is_str(l.func.value):
                    fold = (lambda v: v.upper()) if l.func.attr == "upper" else (lambda v: v.casefold())
                    vals = [str(x) for x in self.conc(r)]
                    d = anyof([v for v in vals if fold(v) == v], ic=True)
                else:
                    raise Unsupported("in " + ast.unparse(e))
                return reach & (d if isinstance(op, ast.In) else ~d)
            if isinstance(op, (ast.IsNot, ast.Is)) and isinstance(r, ast.Constant) and r.value is None:
                v = self.env.get(l.id) if isinstance(l, ast.Name) else None
                if isinstance(v, Match):
                    return reach & (v.d if isinstance(op, ast.IsNot) else ~v.d)
                if isinstance(v, Conc):
                    return reach if ((v.v is not None) == isinstance(op, ast.IsNot)) else EMPTY
                if isinstance(l, ast.Call) and isinstance(l.func, ast.Attribute) and l.func.attr == "fullmatch" and l.args \
                        and self.is_str(l.args[0]):
                    r_ = self.conc(l.func.value)
                    d = rx(r_.pattern) if r_ is not None else EMPTY
                    return reach & (d if isinstance(op, ast.IsNot) else ~d)
                if isinstance(l, ast.Call) and ast.unparse(l.func) in ("re.fullmatch", "re.match", "re.search") and len(l.args) == 2 \
                        and not l.keywords and self.is_str(l.args[1]):
                    pat = self.fstring(l.args[0])
                    d = rx(pat)
                    if l.func.attr == "match":
                        d = concat(d, EVERYTHING)
                    elif l.func.attr == "search":
                        d = concat(concat(EVERYTHING, d), EVERYTHING)
                    return reach & (d if isinstance(op, ast.IsNot) else ~d)
                if isinstance(l, ast.Attribute) and ast.unparse(l).startswith("self.grammar."):
                    val = self.conc(l)
                    return reach if ((val is not None) == isinstance(op, ast.IsNot)) else EMPTY
                if isinstance(l, ast.Call) and isinstance(l.func, ast.Attribute) and isinstance(l.func.value, ast.Name) \
                        and not self.is_str(l.func.value):
                    raise Opaque(ast.unparse(e))          # e.g. d.utcoffset() is None
                raise Unsupported("is None " + ast.unparse(e))
            if isinstance(op, (ast.Eq, ast.NotEq, ast.Gt, ast.GtE, ast.Lt, ast.LtE)):
                # a*len(s) + b <op> c*len(s) + d  (len(s) + 2 > self.width - len(self.newline)): brought to len(s) <op'> n
                def _lin(x):
                    if isinstance(x, ast.Call) and isinstance(x.func, ast.Name) and x.func.id == "len" and len(x.args) == 1 and self.is_str(x.args[0]):
                        return (1, 0)
                    if isinstance(x, ast.BinOp) and isinstance(x.op, (ast.Add, ast.Sub)):
                        a_, b_ = _lin(x.left), _lin(x.right)
                        if a_ is None or b_ is None:
                            return None
                        sg = 1 if isinstance(x.op, ast.Add) else -1
                        return (a_[0] + sg * b_[0], a_[1] + sg * b_[1])
                    if isinstance(x, ast.BinOp) and isinstance(x.op, (ast.Mult, ast.Div)):
                        a_, b_ = _lin(x.left), _lin(x.right)
                        if a_ is None or b_ is None:
                            return None
                        if isinstance(x.op, ast.Mult) and (a_[0] == 0 or b_[0] == 0):
                            k_, o_ = (a_[1], b_) if a_[0] == 0 else (b_[1], a_)
                            return (o_[0] * k_, o_[1] * k_)
                        if isinstance(x.op, ast.Div) and b_[0] == 0 and b_[1]:
                            return (a_[0] / b_[1], a_[1] / b_[1])
                        return None
                    if self.mentions_str(x):
                        return None
                    try:
                        v_ = self.conc(x)
                    except Unsupported:
                        return None
                    return (0, v_) if isinstance(v_, (int, float)) and not isinstance(v_, bool) else None
                _is_len = lambda x: isinstance(x, ast.Call) and isinstance(x.func, ast.Name) and x.func.id == "len" and len(x.args) == 1 and self.is_str(x.args[0])
                if not _is_len(l) and any(_is_len(x) for x in ast.walk(e)):
                    ll, rr = _lin(l), _lin(r)
                    if ll is not None and rr is not None and ll[0] != rr[0]:
                        k_ = ll[0] - rr[0]
                        n_ = (rr[1] - ll[1]) / k_
                        flip = {ast.Gt: ast.Lt, ast.GtE: ast.LtE, ast.Lt: ast.Gt, ast.LtE: ast.GtE}
                        op2 = type(op) if k_ > 0 else flip.get(type(op), type(op))
                        import math
                        if op2 is ast.Eq:
                            d = SL.length_eq(int(n_)) if n_ == int(n_) and n_ >= 0 else EMPTY
                        elif op2 is ast.NotEq:
                            d = ~SL.length_eq(int(n_)) if n_ == int(n_) and n_ >= 0 else EVERYTHING
                        elif op2 is ast.Gt:
                            d = SL.length_gt(math.floor(n_)) if n_ >= 0 else EVERYTHING
                        elif op2 is ast.GtE:
                            d = SL.length_gt(math.ceil(n_) - 1) if n_ > 0 else EVERYTHING
                        elif op2 is ast.Lt:
                            d = ~(SL.length_gt(math.ceil(n_) - 1) if n_ > 0 else EVERYTHING)
                        else:
                            d = ~SL.length_gt(math.floor(n_)) if n_ >= 0 else EMPTY
                        return reach & d
                # len(s) <op> n
                if isinstance(l, ast.Call) and isinstance(l.func, ast.Name) and l.func.id == "len" and self.is_str(l.args[0]):
                    n = self.conc(r)
                    import math
                    if isinstance(op, ast.Eq):
                        d = SL.length_eq(int(n)) if n == int(n) else EMPTY
                    elif isinstance(op, ast.NotEq):
                        d = ~SL.length_eq(int(n)) if n == int(n) else EVERYTHING
                    elif isinstance(op, ast.Gt):
                        d = SL.length_gt(math.floor(n))
                    elif isinstance(op, ast.GtE):
                        d = SL.length_gt(math.ceil(n) - 1) if n > 0 else EVERYTHING
                    elif isinstance(op, ast.Lt):
                        d = ~(SL.length_gt(math.ceil(n) - 1) if n > 0 else EVERYTHING)
                    else:
                        d = ~SL.length_gt(math.floor(n))
                    return reach & d
                # s == "literal"
                if isinstance(op, (ast.Eq, ast.NotEq)):
                    for a, b in ((l, r), (r, l)):
                        if self.is_str(a) and not self.mentions_str(b):
                            k = self.conc(b)
                            d = SL.lit(k) if isinstance(k, str) else EMPTY
                            return reach & (d if isinstance(op, ast.Eq) else ~d)
                # folded == K.casefold() where folded = s.casefold() was stored in a local
                for a, b in ((l, r), (r, l)):
                    if isinstance(a, ast.Name) and isinstance(self.env.get(a.id), Folded):
                        k = str(self.conc(b))
                        how = self.env[a.id].how
                        same = (k.upper() == k) if how == "upper" else (k.casefold() == k if how == "casefold" else k.lower() == k)
                        d = anyof([k], ic=True) if same else EMPTY
                        return reach & (d if isinstance(op, ast.Eq) else ~d)
                # s.casefold() == K.casefold()   /  K.casefold() == s.casefold()
                for a, b in ((l, r), (r, l)):
                    if isinstance(a, ast.Call) and isinstance(a.func, ast.Attribute) and a.func.attr == "casefold" and self.is_str(a.func.value):
                        k = self.conc(b)
                        d = anyof([k], ic=True)
                        return reach & (d if isinstance(op, ast.Eq) else ~d)
            raise Unsupported("compare " + ast.unparse(e))
        if isinstance(e, ast.Call) and isinstance(e.func, ast.Name) and isinstance(self.env.get(e.func.id), StrMeth):
            e = ast.Call(func=ast.Attribute(value=ast.Name(id="$value", ctx=ast.Load()), attr=self.env[e.func.id].attr, ctx=ast.Load()),
                         args=e.args, keywords=e.keywords)
        if isinstance(e, ast.Call):
            f = e.func
            if isinstance(f, ast.Name) and f.id in ("any", "all") and isinstance(e.args[0], ast.GeneratorExp):
                g = e.args[0]
                gen = g.generators[0]
                if self.is_str(gen.iter):                        # over chars of s
                    ok = self.charset(g.elt, gen.target.id)
                    return reach & (contains_any_char(ok) if f.id == "any" else star(ok))
                # over a concrete table: unrolled; the element is a condition on the string under test
                if len(g.generators) == 1 and not gen.ifs:
                    items = list(self.conc(gen.iter))
                    acc = EMPTY if f.id == "any" else reach
                    saved = dict(self.env)
                    for it in items:
                        self.bind(gen.target, it)
                        t = self.cond(g.elt, reach)
                        acc = (acc | t) if f.id == "any" else (acc & t)
                    self.env = saved
                    return acc
                raise Unsupported("any/all " + ast.unparse(e))
            if isinstance(f, ast.Name) and f.id == "bool" and len(e.args) == 1 and not e.keywords:
                return self.cond(e.args[0], reach)
            if isinstance(f, ast.Name) and f.id == "isinstance":
                if self.is_str(e.args[0]):
                    return reach                                  # the value under test is a str
                raise Unsupported("isinstance")
            if isinstance(f, ast.Attribute) and self.is_str(f.value):
                if f.attr in ("startswith", "endswith"):
                    x = self.conc(e.args[0])
                    xs = x if isinstance(x, tuple) else (x,)
                    ds = [SL.startswith(k) if f.attr == "startswith" else SL.endswith(k) for k in xs]
                    return reach & union(ds)
                if f.attr == "isprintable":
                    return reach & star(SL.chars_where(lambda c: c.isprintable()))
                if f.attr in ("isalpha", "isdigit", "isalnum", "isspace", "isdecimal", "isnumeric", "isupper", "islower") \
                        and not e.args and f.attr not in ("isupper", "islower"):
                    cs = SL.chars_where(lambda c: getattr(c, f.attr)())
                    return reach & (star(cs) - SL.EPSILON)
                if f.attr == "isascii" and not e.args:
                    return reach & star(SL.chars_where(lambda c: ord(c) < 128))
            if isinstance(f, ast.Attribute) and isinstance(f.value, ast.Subscript) and self.is_str(f.value.value):
                idx = self.conc(f.value.slice)
                cs = SL.chars_where(lambda c: getattr(c, f.attr)())
                if idx == 0:
                    return reach & first_in(cs)
            # <concrete set>.isdisjoint(s): no character of s is an element of the set (elements longer than one character
            # never equal a character)
            if isinstance(f, ast.Attribute) and f.attr == "isdisjoint" and len(e.args) == 1 and self.is_str(e.args[0]) \
                    and not self.mentions_str(f.value):
                elems = self.conc(f.value)
                chars = [x for x in elems if isinstance(x, str) and len(x) == 1]
                return reach - contains_any_char(SL.syms(chars))
            # predicate / decoder method calls
            res = self.callfn(e)
            if res is not None:
                if not (reach & res["V"]).empty():
                    # the callee returns "some value" there (an expression the evaluator does not classify): its truth
                    # is unknown -- never guess False.  Exception: the two numeric decoders return a number, which is
                    # false exactly when the text denotes zero (a language: sign, zeros, zero fraction, any exponent)
                    mname = f.attr if isinstance(f, ast.Attribute) else getattr(f, "id", "")
                    if mname in _ZERO_TEXT:
                        return reach & (res["T"] | (res["V"] - _zero_lang(mname)))
                    raise Unsupported("truth value of " + ast.unparse(e)[:70] + " is not classified")
                return reach & res["T"]
            raise Unsupported("cond call " + ast.unparse(e)[:70])
        raise Unsupported("cond " + ast.dump(e)[:80])

    def charset(self, elt, var):
        """set of representative chars c for which boolean expr `elt` over char var is true"""
        return SL.chars_where(lambda c: self.cheval(elt, var, c))

    def cheval(self, e, var, c):
        if isinstance(e, ast.BoolOp):
            vals = [self.cheval(v, var, c) for v in e.values]
            return all(vals) if isinstance(e.op, ast.And) else any(vals)
        if isinstance(e, ast.UnaryOp) and isinstance(e.op, ast.Not):
            return not self.cheval(e.operand, var, c)
        if isinstance(e, ast.Compare) and len(e.ops) == 1:
            l, r = e.left, e.comparators[0]
            lv = c if (isinstance(l, ast.Name) and l.id == var) else self.conc(l)
            rv = c if (isinstance(r, ast.Name) and r.id == var) else self.conc(r)
            op = e.ops[0]
            if isinstance(op, ast.In): return lv in rv
            if isinstance(op, ast.NotIn): return lv not in rv
            if isinstance(op, ast.Eq): return lv == rv
            if isinstance(op, ast.NotEq): return lv != rv
        if isinstance(e, ast.Call) and isinstance(e.func, ast.Attribute) and isinstance(e.func.value, ast.Name) and e.func.value.id == var:
            return getattr(c, e.func.attr)()           # str method of a single representative character
        raise Unsupported("char pred " + ast.unparse(e))

    # ---- calls to other analysed functions; returns outcome dict or None
    def callfn(self, e):
        res = self.callfn0(e)
        return res

    def callfn0(self, e):
        f = e.func
        # for_try_except(ValueError, lambda d: d(value), <tuple of bound methods>): the first method that does not
        # raise gives the result (the helper's documented meaning; its body is checked by the table rules)
        if isinstance(f, ast.Name) and f.id == "for_try_except" and len(e.args) == 3 and not e.keywords \
                and ast.unparse(e.args[0]) == "ValueError" and isinstance(e.args[1], ast.Lambda) and len(e.args[1].args.args) == 1:
            lam = e.args[1]
            p_ = lam.args.args[0].arg
            b_ = lam.body
            if isinstance(b_, ast.Call) and isinstance(b_.func, ast.Name) and b_.func.id == p_ and len(b_.args) == 1 and not b_.keywords \
                    and self.argkind(b_.args[0]) is not None:
                try:
                    items = self.conc(e.args[2])
                except Unsupported:
                    items = None
                if isinstance(items, tuple) and items and all(isinstance(m, Meth) for m in items):
                    out = {k: EMPTY for k in ("T", "F", "ID", "V", "E")}
                    rest = EVERYTHING
                    saved = self.env.get("$m")
                    for m in items:
                        self.env["$m"] = Conc(m)
                        r = self.callfn(ast.Call(func=ast.Name(id="$m", ctx=ast.Load()), args=[b_.args[0]], keywords=[]))
                        if r is None:
                            raise Unsupported("for_try_except over " + repr(m))
                        for k in ("T", "F", "ID", "V"):
                            out[k] = out[k] | (rest & r[k])
                        rest = rest & r["E"]
                    self.env["$m"] = saved
                    out["E"] = rest
                    return out
        if isinstance(f, ast.Name) and isinstance(self.env.get(f.id), Conc) and isinstance(self.env[f.id].v, Meth) \
                and len(e.args) == 1 and not e.keywords and self.argkind(e.args[0]) is not None:
            m = self.env[f.id].v
            kind = self.argkind(e.args[0])
            if m.owner == "decoder":
                if resolve(self.ctx, self.ctx.decoder_cls, m.name)[1] is None:
                    raise Unsupported(f"no method {self.ctx.decoder_cls}.{m.name}")
                return transform(run(self.ctx.decoder_cls, m.name, self.ctx), kind)
            return transform(run("Token" if isinstance(self.env.get("self"), Str) else self.cls, m.name, self.ctx), kind)
        # self.<helper>(<method reference>, ...): a helper of the same object that is handed bound methods
        if isinstance(f, ast.Attribute) and isinstance(f.value, ast.Name) and f.value.id == "self" and e.args and not e.keywords:
            refs = []
            for a in e.args:
                src = ast.unparse(a)
                if isinstance(a, ast.Attribute) and src.startswith("self.decoder.") and src.count(".") == 2:
                    refs.append(Meth(a.attr, "decoder"))
                elif isinstance(a, ast.Attribute) and src.startswith("self.") and src.count(".") == 1 \
                        and resolve(self.ctx, "Token" if isinstance(self.env.get("self"), Str) else self.cls, a.attr)[1] is not None:
                    refs.append(Meth(a.attr, "self"))
                else:
                    refs = None
                    break
            if refs:
                cls = "Token" if isinstance(self.env.get("self"), Str) else self.cls
                defcls, fn = resolve(self.ctx, cls, f.attr)
                if fn is not None:
                    params = [a.arg for a in fn.args.args][1:]
                    if len(params) >= len(refs) and cls == "Token":
                        return run(cls, f.attr, self.ctx, bind=dict(zip(params, refs)))
        if not isinstance(f, ast.Attribute):
            return None
        if e.args and isinstance(e.args[0], ast.Subscript) and isinstance(e.args[0].value, ast.Name) \
                and isinstance(self.env.get(e.args[0].value.id), GroupDict):
            gd = self.env[e.args[0].value.id]
            group = self.conc(e.args[0].slice)
            inner = self.callfn(ast.Call(func=f, args=[ast.Name(id="$value", ctx=ast.Load())], keywords=[]))
            return group_apply(gd.m.pattern, group, inner)
        recv = ast.unparse(f.value)
        recv_is_str = isinstance(f.value, ast.Name) and isinstance(self.env.get(f.value.id), Str)
        # a method of the string object itself (Token) that takes only concrete arguments (tables, flags)
        if recv == "self" and isinstance(self.env.get("self"), Str) and (e.args or e.keywords):
            dcls_, fn_ = resolve(self.ctx, "Token", f.attr)
            if fn_ is not None:
                ps = [a.arg for a in fn_.args.args][1:]
                try:
                    b_ = {}
                    for pname, a in list(zip(ps, e.args)) + [(k.arg, k.value) for k in e.keywords]:
                        if pname not in ps:
                            raise Unsupported("keyword")
                        b_[pname] = self.conc(a)
                        if hasattr(b_[pname], "__iter__") and not isinstance(b_[pname], (str, tuple, list, set, frozenset, dict)):
                            b_[pname] = tuple(b_[pname])        # dict views and the like: a stable value
                    if len(b_) == len(ps) or all(p_ in b_ for p_ in ps[:len(e.args)]):
                        return run("Token", f.attr, self.ctx, bind=b_)
                except Unsupported:
                    pass
        # how does the argument derive from the string under test?
        if e.args:
            if isinstance(e.args[0], ast.Name) and e.args[0].id == "$value":
                kind = ("str",)
            else:
                kind = self.argkind(e.args[0])
            if kind is None:
                # a modelled transform of the string (strip, slice, removeprefix ...): the callee's outcome languages are
                # pulled back through the transform
                try:
                    dv = self.derive(e.args[0])
                except Unsupported:
                    dv = None
                if dv is not None and len(e.args) == 1 and not e.keywords:
                    inner = self.callfn0(ast.Call(func=f, args=[ast.Name(id="$value", ctx=ast.Load())], keywords=[]))
                    if inner is None:
                        return None
                    out = {k: pullback(dv.chain, inner[k]) for k in ("T", "F", "V", "E")}
                    out["V"] = out["V"] | pullback(dv.chain, inner["ID"])
                    out["ID"] = EMPTY
                    if "NONE" in inner:
                        out["NONE"] = pullback(dv.chain, inner["NONE"])
                    return out
                return None
        elif recv_is_str or (recv == "self" and isinstance(self.env.get("self"), Str)):
            kind = ("str",)
        else:
            return None
        res = None
        # further arguments that are concrete (flags, tables) are bound to the callee's parameters
        bind = None
        if len(e.args) > 1 or e.keywords:
            target_cls = None
            if recv == "self":
                target_cls = "Token" if isinstance(self.env.get("self"), Str) else self.cls
            elif recv == "self.decoder":
                target_cls = self.ctx.decoder_cls
            if target_cls is None:
                return None
            dcls_, fn_ = resolve(self.ctx, target_cls, f.attr)
            if fn_ is None:
                return None
            static_ = "staticmethod" in self.ctx.repo.classes[dcls_].decorators.get(f.attr, [])
            ps = [a.arg for a in fn_.args.args]
            ps = ps if static_ else ps[1:]
            bind = {}
            try:
                for pname, a in list(zip(ps[1:], e.args[1:])) + [(k.arg, k.value) for k in e.keywords]:
                    if pname is None or pname not in ps:
                        return None
                    bind[pname] = self.conc(a)
            except Unsupported:
                return None
        if recv == "self" or (recv_is_str and f.attr.startswith("is_")):
            cls = "Token" if (isinstance(self.env.get("self"), Str) or recv != "self") else self.cls
            if resolve(self.ctx, cls, f.attr)[1] is None:
                return None
            ctx = self.ctx
            if recv_is_str and isinstance(self.env.get(f.value.id), TokenStr):
                ctx = self.ctx.with_decoder(self.env[f.value.id].decoder_cls)
            res = run(cls, f.attr, ctx, bind=bind)
        elif recv == "self.decoder":
            if resolve(self.ctx, self.ctx.decoder_cls, f.attr)[1] is None:
                return None
            res = run(self.ctx.decoder_cls, f.attr, self.ctx, bind=bind)
        elif recv == "super()":
            res = run(self.cls, f.attr, self.ctx, after=self.defcls)
        elif recv.startswith("super(") and recv.endswith(", self)"):
            res = run(self.cls, f.attr, self.ctx, after=recv[6:-7])
        if res is None:
            return None
        return transform(res, kind)

    # ---- statements: returns dict outcome -> DFA ; 'N' = falls through
    def block(self, stmts, reach):
        out = {}
        def add(k, d):
            out[k] = out.get(k, EMPTY) | d
        cur = reach
        for s in stmts:
            if not cur.accept:       # nothing reaches this statement
                break
            o = self.stmt(s, cur)
            for k, d in o.items():
                if k != "N":
                    add(k, d)
            cur = o.get("N", EMPTY)
        add("N", cur)
        return out

    def stmt(self, s, reach):
        try:
            return self.stmt0(s, reach)
        except Unsupported:
            if self.ctx.options.get("$partial") and isinstance(s, (ast.For, ast.While, ast.If, ast.Try)):
                # lower bounds only: what was decided before this statement stands, the rest is "some value"
                return {"V": reach}
            if self.ctx.options.get("$lenient") and isinstance(s, ast.If) and not any(
                    isinstance(n, ast.Name) and (isinstance(self.env.get(n.id), (Str, Match, Part, Folded, Bool, Derived)) or n.id == "$value")
                    for n in ast.walk(s)) and not any(
                    isinstance(x, (ast.Return, ast.Raise, ast.Break, ast.Continue, ast.Yield)) for x in ast.walk(s)):
                # bookkeeping under a test that does not involve the string (a cache filled on first use, an index made
                # non-negative): no outcome depends on it; what it binds is not a string
                dep = self.mentions_str(s)
                for n in ast.walk(s):
                    if isinstance(n, ast.Name) and isinstance(n.ctx, ast.Store):
                        self.env[n.id] = UNKNOWN if dep else None
                return {"N": reach}
            if self.ctx.options.get("$lenient") and isinstance(s, (ast.Assign, ast.AugAssign, ast.AnnAssign, ast.Expr)):
                # text-building statements of the writers (s = "{} = ".format(key.ljust(n)), s += ...) are not
                # classified: the names they bind become UNKNOWN when they derive from the string under test (a later
                # test on them is an error, never a guess); an expression statement on the string may raise -> not skipped
                dep = self.mentions_str(s)
                if isinstance(s, ast.Expr) and dep and isinstance(s.value, ast.Call) and isinstance(s.value.func, ast.Attribute) \
                        and (ast.unparse(s.value.func.value) in ("self", "self.decoder", "super()")
                             or ast.unparse(s.value.func.value).startswith("super(")):
                    raise           # self.<check>(value): may refuse the string
                for n in ast.walk(s):
                    if isinstance(n, ast.Name) and isinstance(n.ctx, ast.Store):
                        self.env[n.id] = UNKNOWN if dep else None
                return {"N": reach}
            raise

    # ---- thin helpers: a method whose body is a single `return <expr>` is read as that expression
    def thin_body(self, call):
        """(defcls, params, expr) when `call` is self.<m>(...) / <Class>.<m>(...) and <m> is a thin helper that the
        string-argument protocol of callfn() cannot take (more than one argument, or an argument that is
        not the string under test); None otherwise."""
        f = call.func
        if not (isinstance(f, ast.Attribute) and isinstance(f.value, ast.Name)):
            return None
        if f.value.id == "self":
            cls = "Token" if isinstance(self.env.get("self"), Str) else self.cls
        elif f.value.id in self.ctx.repo.classes:
            cls = f.value.id
        else:
            return None
        if any(isinstance(a, ast.Starred) for a in call.args) or any(k.arg is None for k in call.keywords):
            return None
        if len(call.args) == 1 and not call.keywords and self.argkind(call.args[0]) is not None:
            return None
        if not call.args and not call.keywords:
            return None
        defcls, fn = resolve(self.ctx, cls, f.attr)
        if fn is None:
            return None
        body = [b for b in fn.body if not (isinstance(b, ast.Expr) and isinstance(b.value, ast.Constant))]
        if len(body) != 1 or not isinstance(body[0], ast.Return) or body[0].value is None:
            return None
        decos = self.ctx.repo.classes[defcls].decorators.get(f.attr, [])
        a = fn.args
        if a.vararg or a.kwarg or a.kwonlyargs:
            return None
        params = [x.arg for x in a.posonlyargs + a.args]
        if "staticmethod" not in decos:
            if "classmethod" in decos or not params:
                return None
            params = params[1:]
        if len(call.args) > len(params):
            return None
        binding = dict(zip(params, call.args))
        for k in call.keywords:
            if k.arg not in params or k.arg in binding:
                return None
            binding[k.arg] = k.value
        defaults = dict(zip(params[len(params) - len(a.defaults):], a.defaults))
        for p_ in params:
            if p_ not in binding:
                if p_ not in defaults:
                    return None
                binding[p_] = defaults[p_]
        return body[0].value, binding

    def expand(self, e, depth=0):
        """`e` with calls to thin helpers replaced by the helper's return expression (arguments substituted)."""
        if e is None or depth > 4:
            return e
        ev = self

        class Sub(ast.NodeTransformer):
            def __init__(self, binding):
                self.binding = binding

            def visit_Name(self, n):
                if isinstance(n.ctx, ast.Load) and n.id in self.binding:
                    return clone(self.binding[n.id])
                return n

        class Inl(ast.NodeTransformer):
            changed = False

            def visit_Call(self, n):
                self.generic_visit(n)
                tb = ev.thin_body(n)
                if tb is None:
                    return n
                expr, binding = tb
                Inl.changed = True
                return Sub(binding).visit(clone(expr))

        if not any(isinstance(n, ast.Call) and isinstance(n.func, ast.Attribute) for n in ast.walk(e)):
            return e
        Inl.changed = False
        new = Inl().visit(clone(e))
        if not Inl.changed:
            return e
        ast.fix_missing_locations(new)
        return self.expand(new, depth + 1)

    def expand_stmt(self, s):
        cache = self.ctx.__dict__.setdefault("_expand_cache", {})
        key = (id(s), self.cls, isinstance(self.env.get("self"), Str))
        if key not in cache:
            cache[key] = (s, self.expand_stmt0(s))      # the statement is kept alive so that its id stays unique
        return cache[key][1]

    def expand_stmt0(self, s):
        fields = {ast.Expr: ("value",), ast.Assign: ("value",), ast.Return: ("value",), ast.If: ("test",),
                  ast.For: ("iter",), ast.AugAssign: ("value",), ast.While: ("test",)}.get(type(s))
        if not fields:
            return s
        new = None
        for fl in fields:
            old = getattr(s, fl)
            if old is None:
                continue
            x = self.expand(old)
            if x is not old:
                if new is None:
                    new = copy.copy(s)
                setattr(new, fl, x)
        return new if new is not None else s

    def degetattr(self, s):
        """getattr(obj, <name known here>) is the attribute access it abbreviates"""
        hits = [n for n in ast.walk(s) if isinstance(n, ast.Call) and isinstance(n.func, ast.Name) and n.func.id == "getattr"
                and len(n.args) == 2 and not n.keywords]
        if not hits or isinstance(s, (ast.FunctionDef, ast.ClassDef)):
            return s
        names = {}
        for n in hits:
            try:
                v = self.conc(n.args[1])
            except (Unsupported, Opaque):
                continue
            if isinstance(v, str) and v.isidentifier():
                names[id(n)] = v
        if not names:
            return s
        fields = {ast.Expr: ("value",), ast.Assign: ("value",), ast.Return: ("value",), ast.If: ("test",),
                  ast.For: ("iter",), ast.AugAssign: ("value",), ast.While: ("test",)}.get(type(s))
        if not fields:
            return s

        class G(ast.NodeTransformer):
            def visit_Call(self, n):
                name = names.get(id(n))
                self.generic_visit(n)
                if name is not None:
                    return ast.copy_location(ast.Attribute(value=n.args[0], attr=name, ctx=ast.Load()), n)
                return n
        new = copy.copy(s)
        for fl in fields:
            old = getattr(s, fl)
            if old is not None and any(id(n) in names for n in ast.walk(old)):
                # transform a clone whose getattr calls are matched by position
                cl = clone(old)
                for a, b in zip(ast.walk(old), ast.walk(cl)):
                    if id(a) in names:
                        names[id(b)] = names[id(a)]
                setattr(new, fl, ast.fix_missing_locations(G().visit(cl)))
        return new

    def stmt0(self, s, reach):
        s = self.expand_stmt(s)
        s = self.degetattr(s)
        if isinstance(s, ast.Expr):
            if isinstance(s.value, ast.Constant):
                return {"N": reach}
            if isinstance(s.value, ast.Call):
                src = ast.unparse(s.value)
                if src.startswith("warnings.warn") or src.startswith("warn("):
                    return {"N": reach}
                if isinstance(s.value.func, ast.Attribute) and s.value.func.attr == "encode" and self.is_str(s.value.func.value):
                    ascii_ok = star(SL.chars_where(lambda c: ord(c) < 128))
                    return {"N": reach & ascii_ok, "E": reach - ascii_ok}     # UnicodeError is a ValueError
                # float(s) / int(s) as a statement: a probe that raises ValueError for text the constructor does not read
                if isinstance(s.value.func, ast.Name) and s.value.func.id in ("float", "int") and len(s.value.args) == 1 \
                        and not s.value.keywords and self.is_str(s.value.args[0]):
                    m_ = SL.FLOAT if s.value.func.id == "float" else SL.INT10
                    return {"N": reach & m_, "E": reach - m_}
                # a mutating call on a concrete local built from the tables (excluded.update(self.grammar.whitespace),
                # names.append(x)): carried out on the concrete value -- nothing of the string under test is involved
                f_ = s.value.func
                if isinstance(f_, ast.Attribute) and isinstance(f_.value, ast.Name) and isinstance(self.env.get(f_.value.id), Conc) \
                        and isinstance(self.env[f_.value.id].v, (set, list, dict)) and not s.value.keywords \
                        and not any(self.is_str(a_) or (isinstance(a_, ast.Starred) and self.is_str(a_.value)) for a_ in s.value.args) \
                        and f_.attr in ("update", "add", "append", "extend", "discard", "remove", "difference_update", "intersection_update", "insert"):
                    args_ = []
                    for a_ in s.value.args:          # conc() raises Unsupported for anything that is not a table value
                        if isinstance(a_, ast.Starred):
                            args_.extend(list(self.conc(a_.value)))
                        else:
                            args_.append(self.conc(a_))
                    getattr(self.env[f_.value.id].v, f_.attr)(*args_)
                    return {"N": reach}
                res = self.callfn(s.value)
                if res is not None:
                    return {"N": reach & accepts(res), "E": reach & res["E"]}
            raise Unsupported("expr stmt " + ast.unparse(s)[:60])
        if isinstance(s, ast.Assign):
            t = s.targets[0]
            v = s.value
            if isinstance(t, ast.Name):
                if self.is_str(v):
                    self.env[t.id] = STR
                    return {"N": reach}
                if isinstance(v, ast.Call) and isinstance(v.func, ast.Attribute) and not v.args and \
                        v.func.attr in ("casefold", "lower", "upper") and self.is_str(v.func.value):
                    self.env[t.id] = Folded(v.func.attr)
                    return {"N": reach}
                if isinstance(v, ast.Call) and isinstance(v.func, ast.Name) and v.func.id == "Token" and self.is_str(v.args[0]):
                    kw = {k.arg: ast.unparse(k.value) for k in v.keywords}
                    if len(v.args) >= 3:
                        kw.setdefault("decoder", ast.unparse(v.args[2]))
                    d = kw.get("decoder")
                    if d in ("self.decoder",):
                        dcls = self.ctx.decoder_cls
                    elif d is None or d == "None":
                        dcls = self.ctx.token_default_decoder()
                    else:
                        raise Unsupported(f"Token(..., decoder={d})")
                    self.env[t.id] = TokenStr(dcls)
                    return {"N": reach}
                dv = self.derive(v)
                if dv is not None:
                    self.env[t.id] = dv
                    return {"N": reach}
                if isinstance(v, ast.Attribute) and self.is_str(v.value):
                    self.env[t.id] = StrMeth(v.attr)
                    return {"N": reach}
                fm = self.first_match(v)
                if fm is not None:
                    self.env[t.id] = fm
                    return {"N": reach}
                if isinstance(v, ast.Call) and isinstance(v.func, ast.Attribute) and v.func.attr == "fullmatch":
                    if ast.unparse(v.func.value) == "re":
                        pat = self.fstring(v.args[0])
                        self.env[t.id] = Match(rx(pat), pat)
                    else:
                        r = self.conc(v.func.value)
                        self.env[t.id] = Match(rx(r.pattern) if r is not None else EMPTY, r.pattern if r is not None else None)
                    return {"N": reach}
                if isinstance(v, ast.Call) and isinstance(v.func, ast.Attribute) and v.func.attr == "groupdict" \
                        and isinstance(self.env.get(ast.unparse(v.func.value)), Match):
                    self.env[t.id] = GroupDict(self.env[ast.unparse(v.func.value)])
                    return {"N": reach}
                if isinstance(v, ast.Constant) and v.value is None:
                    old = self.env.get(t.id)
                    self.env[t.id] = Match((old.d - reach) if isinstance(old, Match) else EMPTY)
                    return {"N": reach}
                m = self.libmodel(v)
                if m is not None:
                    old = self.env.get(t.id)
                    base = (old.d - reach) if isinstance(old, Match) else EMPTY
                    self.env[t.id] = Match(base | (reach & m))
                    return {"N": reach & m, "E": reach - m}
                res = self.callfn(v) if isinstance(v, ast.Call) else None
                if res is not None:
                    # value-returning callee: if it returns the input unchanged, alias
                    if not (res["ID"].empty()):
                        self.env[t.id] = STR
                    elif not res.get("NONE", EMPTY).empty():
                        # value-or-None: a later `is None` test on the local is decided by the callee's outcome
                        old = self.env.get(t.id)
                        base = (old.d - reach) if isinstance(old, Match) else EMPTY
                        self.env[t.id] = Match(base | ((reach & accepts(res)) - res["NONE"]))
                    return {"N": reach & accepts(res), "E": reach & res["E"]}
                if isinstance(v, ast.Attribute) and not self.mentions_str(v):
                    # a local alias of a bound method: is_identifier = self.decoder.is_identifier
                    src = ast.unparse(v)
                    if src.startswith("self.decoder.") and src.count(".") == 2 \
                            and resolve(self.ctx, self.ctx.decoder_cls, v.attr)[1] is not None:
                        self.env[t.id] = Conc(Meth(v.attr, "decoder"))
                        return {"N": reach}
                    if src.startswith("self.") and src.count(".") == 1 and not isinstance(self.env.get("self"), Str) \
                            and resolve(self.ctx, self.cls, v.attr)[1] is not None:
                        self.env[t.id] = Conc(Meth(v.attr, "self"))
                        return {"N": reach}
                if isinstance(v, (ast.Tuple, ast.List)) and v.elts and all(
                        isinstance(x, ast.Attribute) and isinstance(x.value, ast.Name) and x.value.id == "self"
                        and resolve(self.ctx, "Token" if isinstance(self.env.get("self"), Str) else self.cls, x.attr)[1] is not None
                        for x in v.elts):
                    self.env[t.id] = Conc(tuple(Meth(x.attr) for x in v.elts))      # a named tuple of bound methods
                    return {"N": reach}
                if self.boolish(v) and self.mentions_str(v):
                    # a named condition on the string under test: is_pointer = key.startswith("^") and ...
                    self.env[t.id] = Bool(self.cond(v, reach))
                    return {"N": reach}
                try:
                    self.env[t.id] = Conc(self.conc(v))
                    return {"N": reach}
                except Unsupported:
                    # a value that does not depend on the string is opaque; one that does must never be guessed
                    self.env[t.id] = UNKNOWN if self.mentions_str(v) else None
                    return {"N": reach}
            if isinstance(t, ast.Tuple):
                if isinstance(v, ast.Call) and isinstance(v.func, ast.Attribute) and v.func.attr == "partition" \
                        and self.is_str(v.func.value) and len(v.args) == 1 and isinstance(v.args[0], ast.Constant) \
                        and isinstance(v.args[0].value, str) and len(v.args[0].value) == 1 and len(t.elts) == 3:
                    sep = v.args[0].value
                    for el, kind in zip(t.elts, ("head", None, "tail")):
                        if isinstance(el, ast.Name):
                            self.env[el.id] = Part(kind, sep) if kind else None
                    return {"N": reach}
                if isinstance(v, ast.Call) and isinstance(v.func, ast.Attribute) and v.func.attr == "partition" and len(v.args) == 1 \
                        and len(t.elts) == 3 and not v.keywords:
                    bd = self.derive(v.func.value)
                    if bd is not None:
                        sep = self.conc(v.args[0])
                        if not (isinstance(sep, str) and len(sep) == 1):
                            raise Unsupported("partition separator " + ast.unparse(v.args[0])[:40])
                        for el, kind in zip(t.elts, ("head", None, "tail")):
                            if isinstance(el, ast.Name):
                                self.env[el.id] = bd.then(kind, sep) if kind else UNKNOWN
                        return {"N": reach}
                if not self.mentions_str(v) and not self.derived_in(v):
                    try:
                        vals = list(self.conc(v))
                    except (Unsupported, TypeError):
                        vals = None
                    if vals is not None and len(vals) == len(t.elts):
                        for el, x in zip(t.elts, vals):
                            if isinstance(el, ast.Name):
                                self.env[el.id] = Conc(x)
                        return {"N": reach}
                dep = self.mentions_str(v) or bool(self.derived_in(v))
                for el in t.elts:
                    if isinstance(el, ast.Name):
                        self.env[el.id] = UNKNOWN if dep else None
                return {"N": reach}
            raise Unsupported("assign " + ast.unparse(s)[:60])
        if isinstance(s, ast.AugAssign) and isinstance(s.target, ast.Name) and isinstance(self.env.get(s.target.id), Conc):
            import operator
            ops = {ast.BitOr: operator.or_, ast.Add: operator.add, ast.Sub: operator.sub, ast.BitAnd: operator.and_}
            if type(s.op) not in ops:
                raise Unsupported("augassign " + ast.unparse(s)[:60])
            self.env[s.target.id] = Conc(ops[type(s.op)](self.env[s.target.id].v, self.conc(s.value)))
            return {"N": reach}
        if isinstance(s, ast.Return):
            v = s.value
            if v is None or (isinstance(v, ast.Constant) and v.value is None):
                return {"F": reach, "NONE": reach}
            if self.is_str(v):
                return {"ID": reach}
            if isinstance(v, ast.Constant):
                return {"T" if v.value else "F": reach} if isinstance(v.value, (bool, type(None))) else {"V": reach}
            if isinstance(v, ast.Call):
                res = self.callfn(v)
                if res is not None:
                    return {k: reach & res[k] for k in ("T", "F", "ID", "V", "E", "NONE") if k in res}
            # library constructors at the boundary: acceptance language from the model table
            m = self.libmodel(v)
            if m is not None:
                return {"V": reach & m, "E": reach - m}
            if self.boolish(v):
                try:
                    t = self.cond(v, reach)
                except (Unsupported, Opaque):
                    if self.ctx.options.get("$partial"):
                        return {"V": reach}          # lower bounds only: what was decided before this point stands
                    raise
                return {"T": t, "F": reach - t}
            return {"V": reach}                                # some value, not classified further (e.g. q + s + q)
        if isinstance(s, ast.Raise):
            return {"E": reach}
        if isinstance(s, ast.If):
            try:
                t = self.cond(s.test, reach)
                f = reach - t
            except Opaque:
                t = f = reach
            o1 = self.block(s.body, t)
            o2 = self.block(s.orelse, f) if s.orelse else {"N": f}
            return merge(o1, o2)
        if isinstance(s, ast.For):
            if self.is_str(s.iter):                               # for c in value: <per-char test>
                return self.charloop(s, reach)
            # for c in value[1:-1] / value.strip("x") / a local bound to one: the same per-character test on the derived
            # string, pulled back through the transforms
            try:
                dv = self.env.get(s.iter.id) if isinstance(s.iter, ast.Name) and isinstance(self.env.get(s.iter.id), Derived) else self.derive(s.iter)
            except Unsupported:
                dv = None
            if isinstance(dv, Derived):
                return self.charloop(s, reach, chain=dv.chain)
            if isinstance(s.iter, (ast.Tuple, ast.List)) and s.iter.elts and all(
                    isinstance(x, ast.Attribute) and isinstance(x.value, ast.Name) and x.value.id == "self" for x in s.iter.elts):
                items = [Meth(x.attr) for x in s.iter.elts]
            else:
                items = list(self.conc(s.iter))
            out = {}
            cur = reach
            for it in items:
                self.bind(s.target, it)
                o = self.block(s.body, cur)
                cur = o.pop("N", EMPTY) | o.pop("C", EMPTY)
                out = merge(out, o)
            if s.orelse:
                o = self.block(s.orelse, cur)
                cur = o.pop("N", EMPTY)
                out = merge(out, o)
            out = merge(out, {"N": cur | out.pop("B", EMPTY)})
            return out
        if isinstance(s, (ast.Import, ast.ImportFrom)):
            # an optional third-party module: available or not in the interpreter that runs pvl (introspection)
            import importlib.util
            mods = [s.module] if isinstance(s, ast.ImportFrom) else [a.name for a in s.names]
            try:
                missing = any(importlib.util.find_spec(m.split(".")[0]) is None for m in mods if m)
            except (ImportError, ValueError):
                missing = True
            return {"IE": reach} if missing else {"N": reach}
        if isinstance(s, ast.Try):
            o = self.block(s.body, reach)
            caught = o.pop("E", EMPTY)
            icaught = o.pop("IE", EMPTY)
            out = o
            handled = ihandled = False
            for h in s.handlers:
                if h.type is None:
                    names = ["Exception"]
                else:
                    names = [ast.unparse(x).split(".")[-1] for x in (h.type.elts if isinstance(h.type, ast.Tuple) else [h.type])]
                if any(n in ("ValueError", "UnicodeError", "UnicodeEncodeError", "Exception") for n in names) and not handled:
                    ho = self.block(h.body, caught)
                    out = merge(out, ho)
                    handled = True
                if any(n in ("ImportError", "ModuleNotFoundError", "Exception") for n in names) and not ihandled:
                    ho = self.block(h.body, icaught)
                    out = merge(out, ho)
                    ihandled = True
            if not handled:
                out = merge(out, {"E": caught})
            if not ihandled:
                out = merge(out, {"IE": icaught})
            return out
        if isinstance(s, ast.Pass):
            return {"N": reach}
        if isinstance(s, ast.Continue):
            return {"C": reach}
        if isinstance(s, ast.Break):
            return {"B": reach}
        raise Unsupported("stmt " + ast.dump(s)[:60])

    def boolish(self, v):
        if isinstance(v, (ast.BoolOp, ast.Compare)) or (isinstance(v, ast.UnaryOp) and isinstance(v.op, ast.Not)):
            return True
        if isinstance(v, ast.Call):
            f = v.func
            if isinstance(f, ast.Name) and f.id in ("any", "all", "isinstance", "bool"):
                return True
            if isinstance(f, ast.Attribute) and (f.attr.startswith("is") or f.attr in ("startswith", "endswith")):
                return True
        return False

    def bind(self, target, value):
        if isinstance(target, ast.Name):
            self.env[target.id] = Conc(value)
        else:
            for el, v in zip(target.elts, value):
                self.bind(el, v)

    def charloop(self, s, reach, chain=()):
        # shape:  for c in value: if <char-pred>: return False   [else: return True]
        var = s.target.id
        body = s.body
        if len(body) == 1 and isinstance(body[0], ast.If) and len(body[0].body) == 1 and isinstance(body[0].body[0], ast.Return):
            bad = self.charset(body[0].test, var)
            ret = body[0].body[0].value
            k = "T" if (isinstance(ret, ast.Constant) and ret.value) else "F"
            hit = reach & (pullback(chain, contains_any_char(bad)) if chain else contains_any_char(bad))
            rest = reach - hit
            out = {k: hit}
            if s.orelse:
                o = self.block(s.orelse, rest)
                return merge(out, o)
            return merge(out, {"N": rest})
        raise Unsupported("char loop shape")

    def match_gen(self, g):
        """(<regex>.fullmatch(s) for <regex> in TABLE)  ->  list of DFAs (None entries of the table dropped)"""
        if isinstance(g, ast.Name) and isinstance(self.env.get(g.id), MatchGen):
            return self.env[g.id].ds
        if isinstance(g, (ast.GeneratorExp, ast.ListComp)) and len(g.generators) == 1 and not g.generators[0].ifs \
                and isinstance(g.generators[0].target, ast.Name):
            el, var = g.elt, g.generators[0].target.id
            if isinstance(el, ast.Call) and isinstance(el.func, ast.Attribute) and el.func.attr == "fullmatch" \
                    and isinstance(el.func.value, ast.Name) and el.func.value.id == var and len(el.args) == 1 and self.is_str(el.args[0]):
                table = list(self.conc(g.generators[0].iter))
                return [rx(r.pattern) for r in table if r is not None]
        return None

    def first_match(self, v):
        """next((m for m in <match generator> if m is not None), None): the first match over a table, or None"""
        if isinstance(v, (ast.GeneratorExp, ast.ListComp)):
            ds = self.match_gen(v)
            return MatchGen(ds) if ds is not None else None
        if not (isinstance(v, ast.Call) and isinstance(v.func, ast.Name) and v.func.id == "next" and len(v.args) == 2
                and isinstance(v.args[1], ast.Constant) and v.args[1].value is None):
            return None
        g = v.args[0]
        if isinstance(g, ast.GeneratorExp) and len(g.generators) == 1 and isinstance(g.elt, ast.Name) \
                and isinstance(g.generators[0].target, ast.Name) and g.elt.id == g.generators[0].target.id \
                and len(g.generators[0].ifs) == 1 and ast.unparse(g.generators[0].ifs[0]) == f"{g.elt.id} is not None":
            ds = self.match_gen(g.generators[0].iter)
            if ds is not None:
                return Match(union(ds) if ds else EMPTY)
        if isinstance(g, ast.Call) and isinstance(g.func, ast.Name) and g.func.id == "filter" and len(g.args) == 2 \
                and isinstance(g.args[0], ast.Constant) and g.args[0].value is None:
            ds = self.match_gen(g.args[1])
            if ds is not None:
                return Match(union(ds) if ds else EMPTY)
        return None

    def fstring(self, e):
        """concrete pattern from implicit-concatenated / f-strings with grammar attributes"""
        if isinstance(e, ast.Constant):
            return e.value
        if isinstance(e, ast.JoinedStr):
            return "".join(v.value if isinstance(v, ast.Constant) else str(self.conc(v.value)) for v in e.values)
        if isinstance(e, ast.BinOp) and isinstance(e.op, ast.Add):
            return self.fstring(e.left) + self.fstring(e.right)
        if isinstance(e, (ast.Attribute, ast.Name)):
            v = self.conc(e)
            if isinstance(v, str):
                return v
        raise Unsupported("pattern")

    def libmodel(self, v):
        src = ast.unparse(v)
        if src.startswith("int(") and "base=10" in src:
            return SL.INT10
        if src.startswith("self.real_cls("):
            a0 = v.args[0] if isinstance(v, ast.Call) and v.args else None
            if a0 is not None and not (self.is_str(a0) or (isinstance(a0, ast.Call) and isinstance(a0.func, ast.Name) and a0.func.id == "str"
                                                          and a0.args and self.is_str(a0.args[0]))):
                # a text put together from parts of a match (f"{m['mantissa']}E{m['exp']}"): what reaches this point was
                # already constrained by the regex; the constructor's own acceptance of the rebuilt text is not modelled
                return EVERYTHING
            return SL.FLOAT
        if src.startswith("int(") :
            return EVERYTHING        # digits already constrained by the regex; radix validity not modelled
        if "for_try_except(ValueError, datetime.strptime" in src:
            calls = [n for n in ast.walk(v) if isinstance(n, ast.Call) and isinstance(n.func, ast.Name) and n.func.id == "for_try_except"]
            if len(calls) != 1 or len(calls[0].args) != 4:
                raise Unsupported("for_try_except in " + src[:60])
            call = calls[0]
            fmts = self.conc(call.args[3])
            return union(SL.strptime_dfa(f) for f in fmts)
        return None


def group_apply(pattern, group, inner):
    """outcomes of applying a decoder to the *leading* named group of `pattern` (suffix = rest of the pattern)"""
    import re._parser as rp, re._constants as rc
    seq = list(rp.parse(pattern))
    op, av = seq[0]
    if op is not rc.SUBPATTERN or rp.parse(pattern).state.groupdict.get(group) != av[0]:
        raise Unsupported("group is not the leading sub-pattern")
    Lg = SL.seq_dfa(av[3])
    Lsuffix = SL.seq_dfa(seq[1:])
    ok = concat(Lg & accepts(inner), Lsuffix)
    whole = concat(Lg, Lsuffix)
    return {"T": EMPTY, "F": EMPTY, "ID": EMPTY, "V": ok, "E": whole - ok}


def transform(res, kind):
    """Languages of f(<derived argument>) as languages over the string under test."""
    if kind == ("str",):
        return res
    any1 = SL.length_eq(1)
    if kind == ("slice1",):
        # f(s[1:]): s = c.v with v in L; for the empty string s[1:] is '' too
        def tr(L):
            out = concat(any1, L)
            return (out | SL.EPSILON) if L.accepts("") else out
    else:
        k, sep = kind
        nosep = star(SL.ALLSYMS - SL.syms([sep]))
        if k == "head":
            def tr(L):
                return concat(L & nosep, SL.EPSILON | concat(SL.lit(sep), EVERYTHING))
        else:
            def tr(L):
                out = concat(concat(nosep, SL.lit(sep)), L)
                return (out | nosep) if L.accepts("") else out
    out = {k: tr(res[k]) for k in ("T", "F", "V", "E")}
    out["V"] = out["V"] | tr(res["ID"])
    out["ID"] = EMPTY
    if "NONE" in res:
        out["NONE"] = tr(res["NONE"])
    return out


def accepts(res):
    return res["T"] | res["F"] | res["ID"] | res["V"]


def first_in(cs):
    return SL.first_in(cs)


def merge(a, b):
    out = dict(a)
    for k, d in b.items():
        out[k] = out.get(k, EMPTY) | d
    return out


