"""Receiver/parameter mutation effects and instance state (DESIGN 2.6)."""
import ast
import re

from .core import Finding, AnalysisError, norm

MUTATORS = {"append", "extend", "insert", "pop", "remove", "clear", "update", "setdefault", "sort", "reverse",
            "add", "discard", "popitem", "popall", "insert_before", "insert_after", "__setitem__", "__delitem__"}
FRESH_CALLS = {"list", "dict", "set", "sorted", "tuple", "frozenset", "str", "copy", "deepcopy"}


def self_attr(node, selfname="self"):
    """node is `self.X` -> 'X'"""
    if isinstance(node, ast.Attribute) and isinstance(node.value, ast.Name) and node.value.id == selfname:
        return node.attr
    return None


def attr_writes(fn, selfname="self"):
    """Instance attributes written in *fn*: (attr, kind, node); kind in
    assign / aug / store-into / mutator / delete."""
    out = []
    for n in ast.walk(fn):
        if isinstance(n, ast.Assign):
            for t in n.targets:
                for el in (t.elts if isinstance(t, (ast.Tuple, ast.List)) else [t]):
                    a = self_attr(el, selfname)
                    if a:
                        out.append((a, "assign", n))
                    if isinstance(el, ast.Subscript):
                        a = self_attr(el.value, selfname)
                        if a:
                            out.append((a, "store-into", n))
        elif isinstance(n, ast.AugAssign):
            a = self_attr(n.target, selfname)
            if a:
                out.append((a, "aug", n))
            if isinstance(n.target, ast.Subscript):
                a = self_attr(n.target.value, selfname)
                if a:
                    out.append((a, "store-into", n))
        elif isinstance(n, ast.Delete):
            for t in n.targets:
                a = self_attr(t, selfname) or (self_attr(t.value, selfname) if isinstance(t, ast.Subscript) else None)
                if a:
                    out.append((a, "delete", n))
        elif isinstance(n, ast.Call) and isinstance(n.func, ast.Attribute) and n.func.attr in MUTATORS:
            a = self_attr(n.func.value, selfname)
            if a:
                out.append((a, "mutator", n))
    return out


def self_calls(fn, selfname="self"):
    out = set()
    for n in ast.walk(fn):
        if isinstance(n, ast.Call) and isinstance(n.func, ast.Attribute):
            v = n.func.value
            if isinstance(v, ast.Name) and v.id == selfname:
                out.add(n.func.attr)
            if isinstance(v, ast.Call) and isinstance(v.func, ast.Name) and v.func.id == "super":
                out.add(n.func.attr)
        # bound methods passed around: (self.a, self.b)
        if isinstance(n, ast.Attribute) and isinstance(n.value, ast.Name) and n.value.id == selfname and isinstance(n.ctx, ast.Load):
            out.add(n.attr)
    return out


def family_methods(repo, base):
    """All (class, method name, fn) of *base* and its subclasses."""
    out = []
    for c in repo.subclasses(base):
        for m, fn in repo.classes[c].methods.items():
            out.append((c, m, fn))
    return out


def reachable(repo, cname, entry):
    """Methods (defcls, name) reachable from cname.entry via self./super() calls,
    resolved for the concrete class and every definition in its MRO chain."""
    seen, work = set(), [entry]
    names = set()
    while work:
        m = work.pop()
        if m in names:
            continue
        names.add(m)
        for c in repo.mro(cname):
            if c.startswith("ext:"):
                continue
            fn = repo.classes[c].methods.get(m)
            if fn is not None:
                seen.add((c, m))
                for callee in self_calls(fn):
                    if callee not in names:
                        work.append(callee)
    return seen


def is_fresh(expr):
    """An expression that yields a new object not shared with earlier calls."""
    if isinstance(expr, (ast.List, ast.Dict, ast.Set, ast.ListComp, ast.DictComp, ast.SetComp, ast.Constant,
                         ast.JoinedStr, ast.Tuple)):
        return True
    if isinstance(expr, ast.Call):
        return True     # a call result (list(), sorted(), re.sub, ...) is a new value for this call
    if isinstance(expr, ast.Name):
        return True     # a parameter / local of this call
    return False


ENTRY_POINTS = {"PVLParser": ("parse",), "PVLDecoder": ("decode", "decode_simple_value", "decode_quantity"),
                "PVLEncoder": ("encode",)}


def rule_estate(repo, res, families=("PVLParser", "PVLDecoder", "PVLEncoder"), floor=0):
    """E-STATE: every instance attribute written outside __init__ in a method
    reachable from a per-call entry point is assigned a fresh value in the
    entry point, at its top level, before any other statement that calls into
    the class; nothing mutable of the instance is aliased into the result."""
    n_attrs = 0
    for base in families:
        if not repo.has_cls(base):
            raise AnalysisError(f"anchor vanished: class {base}")
        for cname in repo.subclasses(base):
            for entry in ENTRY_POINTS[base]:
                defcls, efn = repo.full_resolved(cname, entry)
                if efn is None:
                    if entry in ("parse", "encode"):
                        raise AnalysisError(f"anchor vanished: {cname}.{entry}")
                    continue
                reach = reachable(repo, cname, entry)
                init_reach = reachable(repo, cname, "__init__")
                written = {}
                for (c, m) in sorted(reach):
                    if m == "__init__":
                        continue
                    fn = repo.classes[c].methods[m]
                    for (a, kind, node) in attr_writes(fn):
                        written.setdefault(a, []).append((c, m, kind, node))
                for a, sites in sorted(written.items()):
                    n_attrs += 1
                    # which entry definitions (the resolved one and those it reaches through super()) reset it first?
                    reset = False
                    assigned_first = False      # some top-level assignment (fresh or not) before anything calls into the class
                    chain = [c for c in repo.mro(cname) if not c.startswith("ext:") and entry in repo.classes[c].methods]
                    for c in chain:
                        fn = repo.classes[c].methods[entry]
                        for s in fn.body:
                            if isinstance(s, ast.Expr) and isinstance(s.value, ast.Constant):
                                continue
                            if isinstance(s, ast.Assign) and any(self_attr(t) == a for t in s.targets):
                                assigned_first = True
                            if isinstance(s, ast.Assign) and any(self_attr(t) == a for t in s.targets) and is_fresh(s.value):
                                reset = True
                                break
                            # a statement that may call into the class before the reset
                            if any(isinstance(x, ast.Call) and isinstance(x.func, ast.Attribute) and
                                   (self_attr(x.func) is not None or
                                    (isinstance(x.func.value, ast.Call) and norm(x.func.value.func) == "super" and x.func.attr != entry))
                                   for x in ast.walk(s)):
                                break
                        if reset:
                            break
                    # an attribute that only the entry point assigns is per-call state as long as the entry point assigns it
                    # unconditionally before it calls anything (self.doc = s); assigned on some paths only, it keeps the
                    # value of an earlier call on the others
                    only_assign_in_entry = all(m == entry and kind == "assign" for (_, m, kind, _) in sites) and assigned_first
                    ok = reset or only_assign_in_entry
                    c0, m0, kind0, node0 = sites[0]
                    for (c1, m1, k1, n1) in sites:
                        if m1 != entry:
                            c0, m0, kind0, node0 = c1, m1, k1, n1
                            break
                    res.oblige("E-STATE", f"{cname}.{entry}: self.{a} (written in {c0}.{m0}, {kind0}) is fresh per call", ok=ok)
                    if not ok:
                        res.add(Finding("E-STATE", f"{base} family", f"self.{a}",
                                        f"instance attribute self.{a} is modified in {c0}.{m0} (`{norm(node0, 60)}`), "
                                        f"reachable from {cname}.{entry}(), but {entry}() does not assign it a fresh "
                                        f"value before use: what one call leaves there is seen by the next call on "
                                        f"the same instance",
                                        where=f"pvl/{repo.classes[c0].module.name}.py:{node0.lineno}",
                                        extra={"entry": f"{cname}.{entry}"}))
    res.floor("instance attributes written on per-call paths", n_attrs, floor)


def rule_alias(repo, res):
    """Nothing mutable of a parser instance is aliased into the result:
    `<obj>.X = self.<attr>` must copy (sorted/list/...)."""
    for (c, m, fn) in family_methods(repo, "PVLParser"):
        for n in ast.walk(fn):
            if isinstance(n, ast.Assign) and len(n.targets) == 1 and isinstance(n.targets[0], ast.Attribute) \
                    and not self_attr(n.targets[0]):
                v = n.value
                if self_attr(v) in ("errors",):
                    res.oblige("E-ALIAS", f"{c}.{m} `{norm(n)}` copies the list", ok=False)
                    res.add(Finding("E-ALIAS", f"{c}.{m}", norm(n),
                                    f"`{norm(n)}` stores the parser's own mutable list in the returned module: a later "
                                    "parse on the same instance changes the errors of a module already returned",
                                    where=f"pvl/parser.py:{n.lineno}"))
                elif any(self_attr(x) == "errors" for x in ast.walk(v)):
                    res.oblige("E-ALIAS", f"{c}.{m} `{norm(n)}` copies the list", ok=True)


def rule_globals(repo, res, modules=("parser", "decoder", "encoder", "lexer", "token", "grammar", "__init__", "new"), floor=25):
    """No module-level or class-level mutable is written from a function, and
    parameters with mutable defaults are not mutated."""
    n = 0
    for mn in modules:
        mod = repo.module(mn)
        toplevel = set(mod.assigns) | set(mod.classes)
        for fn in [x for x in ast.walk(mod.tree) if isinstance(x, ast.FunctionDef)]:
            n += 1
            locals_ = {a.arg for a in fn.args.args + fn.args.kwonlyargs}
            for x in ast.walk(fn):
                if isinstance(x, (ast.Assign, ast.AugAssign, ast.For)):
                    tg = x.targets if isinstance(x, ast.Assign) else [x.target]
                    for t in tg:
                        for e in ast.walk(t):
                            if isinstance(e, ast.Name) and isinstance(e.ctx, ast.Store):
                                locals_.add(e.id)
            bad = []
            for x in ast.walk(fn):
                if isinstance(x, ast.Global):
                    bad.append((x, f"global {', '.join(x.names)}"))
                if isinstance(x, ast.Call) and isinstance(x.func, ast.Attribute) and x.func.attr in MUTATORS \
                        and isinstance(x.func.value, ast.Name) and x.func.value.id in toplevel and x.func.value.id not in locals_:
                    bad.append((x, norm(x, 60)))
                if isinstance(x, (ast.Assign, ast.AugAssign)):
                    tg = x.targets if isinstance(x, ast.Assign) else [x.target]
                    for t in tg:
                        if isinstance(t, ast.Subscript) and isinstance(t.value, ast.Name) and t.value.id in toplevel \
                                and t.value.id not in locals_:
                            bad.append((x, norm(x, 60)))
                        if isinstance(t, ast.Attribute) and isinstance(t.value, ast.Name) and t.value.id in mod.classes \
                                and t.value.id not in locals_:
                            bad.append((x, norm(x, 60)))
                        # type(self).X = ... / self.__class__.X = ...
                        if isinstance(t, ast.Attribute) and norm(t.value) in ("type(self)", "self.__class__", "cls"):
                            bad.append((x, norm(x, 60)))
            # mutable defaults
            nd = len(fn.args.defaults)
            for a, d in zip(fn.args.args[len(fn.args.args) - nd:], fn.args.defaults):
                if isinstance(d, (ast.List, ast.Dict, ast.Set, ast.Call)):
                    for x in ast.walk(fn):
                        if isinstance(x, ast.Call) and isinstance(x.func, ast.Attribute) and x.func.attr in MUTATORS and \
                                isinstance(x.func.value, ast.Name) and x.func.value.id == a.arg:
                            bad.append((x, f"default argument {a.arg} mutated: {norm(x, 50)}"))
                        if isinstance(x, (ast.Assign, ast.AugAssign)):
                            tg = x.targets if isinstance(x, ast.Assign) else [x.target]
                            for t in tg:
                                if isinstance(t, (ast.Attribute, ast.Subscript)) and isinstance(t.value, ast.Name) and t.value.id == a.arg:
                                    bad.append((x, f"default argument {a.arg} mutated: {norm(x, 50)}"))
            for (x, what) in bad:
                owner = getattr(fn, "_parent", None)
                q = (owner.name + "." if isinstance(owner, ast.ClassDef) else "") + fn.name
                res.add(Finding("E-GLOBAL", f"{mn}.{q}", what,
                                f"{mn}.{q} writes shared state (`{what}`): the effect outlives the call and is seen by "
                                "every later use of the module/class", where=f"pvl/{mn}.py:{x.lineno}"))
            res.oblige("E-GLOBAL", f"{mn}.{fn.name} writes no module/class-level state nor a default argument", ok=not bad,
                       nontrivial=False)
    res.floor("functions scanned for shared-state writes", n, floor)


# ---------------------------------------------------------------- C08
def rule_shared_class_state(repo, res, families=("PVLParser", "PVLDecoder", "PVLEncoder", "PVLGrammar", "Token")):
    """E-SHARED: an object created in a class body (NAME = Something(...), [], {}, set()) is one object for every
    instance of the class and its subclasses.  A method that writes through it -- self.NAME.attr = ..., self.NAME[k] =
    ..., self.NAME.append(...) -- changes what every other instance sees: the result of one encoder/parser then depends
    on which other instances were built or used before (unless the constructor first gives the instance its own object:
    self.NAME = ...)."""
    n = 0
    for fam in families:
        for c in repo.subclasses(fam):
            mro = [x for x in repo.mro(c) if not x.startswith("ext:")]
            shared = {}
            for k in mro:
                for name, val in repo.classes[k].aliases.items():
                    if isinstance(val, (ast.Call, ast.List, ast.Dict, ast.Set, ast.ListComp, ast.DictComp, ast.SetComp)) \
                            and not (isinstance(val, ast.Call) and norm(val.func) in ("tuple", "frozenset", "re.compile", "str", "int", "float",
                                                                                      "namedtuple", "collections.namedtuple", "property")):
                        shared.setdefault(name, k)
            if not shared:
                continue
            # names the constructor rebinds on the instance are per-instance
            own = set()
            for k in mro:
                init = repo.classes[k].methods.get("__init__")
                if init is not None:
                    for a in ast.walk(init):
                        if isinstance(a, ast.Assign):
                            for t in a.targets:
                                if isinstance(t, ast.Attribute) and isinstance(t.value, ast.Name) and t.value.id == "self":
                                    own.add(t.attr)
            for m, fn in repo.classes[c].methods.items():
                for a in ast.walk(fn):
                    tgt = None
                    if isinstance(a, (ast.Assign, ast.AugAssign, ast.AnnAssign)):
                        for t in (a.targets if isinstance(a, ast.Assign) else [a.target]):
                            if isinstance(t, (ast.Attribute, ast.Subscript)) and isinstance(t.value, ast.Attribute) \
                                    and isinstance(t.value.value, ast.Name) and t.value.value.id in ("self", "cls", c):
                                tgt = t.value.attr
                    if isinstance(a, ast.Call) and isinstance(a.func, ast.Attribute) and a.func.attr in MUTATORS \
                            and isinstance(a.func.value, ast.Attribute) and isinstance(a.func.value.value, ast.Name) \
                            and a.func.value.value.id in ("self", "cls", c):
                        tgt = a.func.value.attr
                    # self.NAME += [...] / |= {...}: for a list, dict or set the class-level object itself is extended in place
                    # (and then bound to the instance as well) -- unless the instance got its own object first
                    if isinstance(a, ast.AugAssign) and isinstance(a.target, ast.Attribute) and isinstance(a.target.value, ast.Name) \
                            and a.target.value.id in ("self", "cls", c) and a.target.attr in shared:
                        rebound_before = any(isinstance(b, ast.Assign) and b.lineno < a.lineno and any(
                            isinstance(t, ast.Attribute) and isinstance(t.value, ast.Name) and t.value.id == "self" and t.attr == a.target.attr
                            for t in b.targets) for b in ast.walk(fn))
                        if not rebound_before:
                            n += 1
                            res.oblige("E-SHARED", f"{c}.{m}: `{norm(a, 60)}` does not extend the class-level object `{a.target.attr}` in place", ok=False)
                            res.add(Finding("E-SHARED", f"{c}.{m}", f"extends class attribute {a.target.attr} in place",
                                            f"{c}.{m} executes `{norm(a, 70)}`; `{a.target.attr}` is a mutable object created once in the body of "
                                            f"class {shared[a.target.attr]}: the augmented assignment changes that one object for every grammar / "
                                            "parser / encoder class that inherits it, so what a dialect accepts or writes depends on which "
                                            "objects were built before", where=f"pvl/{repo.classes[c].module.name}.py:{a.lineno}"))
                    if tgt in shared and tgt not in own:
                        n += 1
                        res.oblige("E-SHARED", f"{c}.{m}: `{norm(a, 60)}` does not write through the class-level object `{tgt}`", ok=False)
                        res.add(Finding("E-SHARED", f"{c}.{m}", f"writes through class attribute {tgt}",
                                        f"{c}.{m} executes `{norm(a, 70)}`; `{tgt}` is created once in the body of class {shared[tgt]} and "
                                        "shared by all instances, so one instance's configuration or call changes the behaviour of every "
                                        "other instance (results depend on which instances were built or used before)",
                                        where=f"pvl/{repo.classes[c].module.name}.py:{a.lineno}"))
    res.oblige("E-SHARED", "no method writes through a mutable object created in a class body", ok=True, nontrivial=False)


def rule_memo(repo, res, modules=("token", "decoder", "parser", "encoder", "grammar", "lexer", "collections")):
    """E-MEMO: results that depend on more than the call's hashable arguments must not be memoised.
    functools.lru_cache / cache on a *method* keys the entry on ``self`` -- for Token (a str subclass) that is the
    text alone, for the other classes it is identity, while the answer depends on the grammar/decoder/options the
    object carries; lru_cache without typed=True around a value constructor conflates 1, 1.0 and True.  Either way a
    later call gets the answer computed for another dialect, option set or type."""
    n = 0
    CACHES = ("lru_cache", "functools.lru_cache", "cache", "functools.cache", "cached_property", "functools.cached_property")

    def is_cache(e):
        f = e.func if isinstance(e, ast.Call) else e
        return norm(f) in CACHES
    for mname in modules:
        if mname not in repo.modules:
            continue
        mod = repo.module(mname)
        for cname, cnode in mod.classes.items():
            for fn in [x for x in cnode.body if isinstance(x, ast.FunctionDef)]:
                for d in fn.decorator_list:
                    if is_cache(d):
                        n += 1
                        res.oblige("E-MEMO", f"{cname}.{fn.name} is not memoised on self", ok=False)
                        res.add(Finding("E-MEMO", f"{cname}.{fn.name}", f"@{norm(d, 40)} on a method",
                                        f"{cname}.{fn.name} is memoised with @{norm(d, 40)}: the cache key is `self` -- "
                                        + ("for a Token that is its text only (str hash/eq), so tokens of different grammars/decoders share an "
                                           "answer" if "Token" in repo.mro(cname) or cname == "Token" else
                                           "while the result also depends on the state the object carries (grammar, decoder, options)")
                                        + ": a later call gets the answer computed for another dialect or configuration",
                                        where=f"pvl/{mname}.py:{fn.lineno}"))
                # lru_cache(...)(callable) stored on the instance / used inline
                for x in ast.walk(fn):
                    if isinstance(x, ast.Call) and isinstance(x.func, ast.Call) and is_cache(x.func):
                        typed = any(k.arg == "typed" and isinstance(k.value, ast.Constant) and k.value.value is True for k in x.func.keywords)
                        n += 1
                        res.oblige("E-MEMO", f"{cname}.{fn.name}: `{norm(x, 50)}` is typed", ok=typed)
                        if not typed:
                            res.add(Finding("E-MEMO", f"{cname}.{fn.name}", f"untyped cache around {norm(x.args[0], 30) if x.args else '?'}",
                                            f"{cname}.{fn.name} wraps `{norm(x.args[0], 40) if x.args else '?'}` in {norm(x.func, 40)}: without "
                                            "typed=True the key compares by ==, so 1, 1.0 and True (and equal values of different classes) "
                                            "share one cached result -- an integer written earlier comes back for a later real",
                                            where=f"pvl/{mname}.py:{x.lineno}"))
    res.oblige("E-MEMO", "no method of the reader/writer classes is memoised on self; no untyped cache wraps a value constructor", ok=True,
               nontrivial=False)


def rule_e1(repo, res):
    """EmptyValueAtLine is constructed only in OmniParser._empty_value-like
    helpers of OmniParser (who-may-construct); the helper appends to
    self.errors the same line number it gives the placeholder; parse()
    assigns module.errors from self.errors on every path to its return."""
    pm = repo.module("parser")
    sites = []
    for fn in [x for x in ast.walk(pm.tree) if isinstance(x, ast.FunctionDef)]:
        for n in ast.walk(fn):
            if isinstance(n, ast.Call) and isinstance(n.func, ast.Name) and n.func.id == "EmptyValueAtLine":
                owner = getattr(fn, "_parent", None)
                sites.append((owner.name if isinstance(owner, ast.ClassDef) else None, fn, n))
    res.floor("EmptyValueAtLine construction sites", len(sites), 1)
    omni_family = set(repo.subclasses("OmniParser"))
    for (cls, fn, call) in sites:
        ok_owner = cls in omni_family
        res.oblige("E1", f"EmptyValueAtLine constructed in {cls}.{fn.name} (permissive parser only)", ok=ok_owner)
        if not ok_owner:
            res.add(Finding("E1", f"{cls}.{fn.name}", "EmptyValueAtLine(...)",
                            f"an EmptyValueAtLine placeholder is constructed in {cls}.{fn.name}, outside the permissive "
                            "OmniParser: a strict parser can return a module with a missing value instead of raising",
                            where=f"pvl/parser.py:{call.lineno}"))
        # the same line number goes to self.errors
        arg = call.args[0] if call.args else None
        appended = [n for n in ast.walk(fn) if isinstance(n, ast.Call) and isinstance(n.func, ast.Attribute)
                    and n.func.attr == "append" and self_attr(n.func.value) == "errors"]
        ok_same = arg is not None and any(a.args and norm(a.args[0]) == norm(arg) for a in appended)
        # every path: the append is a top-level statement of the function (no branch)
        ok_uncond = any(isinstance(getattr(a, "_parent", None), ast.Expr) and getattr(a._parent, "_parent", None) is fn for a in appended)
        res.oblige("E1", f"{cls}.{fn.name}: the placeholder's line number is also appended to self.errors on every path",
                   ok=ok_same and ok_uncond)
        if not (ok_same and ok_uncond):
            res.add(Finding("E1", f"{cls}.{fn.name}", "self.errors.append(<line>)",
                            f"{cls}.{fn.name} builds EmptyValueAtLine({norm(arg) if arg is not None else ''}) but does not "
                            "append that same line number to self.errors on every path: module.errors and the "
                            "placeholders disagree", where=f"pvl/parser.py:{call.lineno}"))
        # the line number derives from the position of the preceding '=' in self.doc via linecount
        if arg is not None and isinstance(arg, ast.Name):
            defs = [n for n in ast.walk(fn) if isinstance(n, ast.Assign) and isinstance(n.targets[0], ast.Name) and n.targets[0].id == arg.id]
            ok_lc = any(isinstance(d.value, ast.Call) and norm(d.value.func) == "linecount" and d.value.args
                        and norm(d.value.args[0]) == "self.doc" for d in defs)
            res.oblige("E1", f"{cls}.{fn.name}: line number = linecount(self.doc, <position of '='>)", ok=ok_lc)
            if not ok_lc:
                res.add(Finding("E1", f"{cls}.{fn.name}", "linecount(self.doc, …)",
                                "the placeholder's line number is not computed by linecount() on self.doc",
                                where=f"pvl/parser.py:{call.lineno}"))
            # the position handed to linecount comes from self.doc.rfind('=', 0, pos)
            eqdefs = [n for n in ast.walk(fn) if isinstance(n, ast.Assign) and isinstance(n.value, ast.Call)
                      and norm(n.value.func) == "self.doc.rfind"]
            ok_eq = any(n.value.args and isinstance(n.value.args[0], ast.Constant) and n.value.args[0].value == "=" for n in eqdefs)
            res.oblige("E1", f"{cls}.{fn.name}: the position is that of the preceding '=' in self.doc", ok=ok_eq)
            if not ok_eq:
                res.add(Finding("E1", f"{cls}.{fn.name}", "self.doc.rfind('=', 0, pos)",
                                "the line number is no longer taken at the '=' that precedes the missing value",
                                where=f"pvl/parser.py:{call.lineno}"))
    # parse(): module.errors = sorted(self.errors) before every return of the module
    for cname in repo.subclasses("PVLParser"):
        chain = [c for c in repo.mro(cname) if not c.startswith("ext:") and "parse" in repo.classes[c].methods]
        base = chain[-1]
        fn = repo.classes[base].methods["parse"]
        okp = False
        for i, s in enumerate(fn.body):
            if isinstance(s, ast.Assign) and isinstance(s.targets[0], ast.Attribute) and s.targets[0].attr == "errors" \
                    and not self_attr(s.targets[0]) and norm(s.value) in ("sorted(self.errors)",):
                rest = fn.body[i + 1:]
                okp = len(rest) >= 1 and isinstance(rest[-1], ast.Return) and norm(rest[-1].value) == norm(s.targets[0].value)
        res.oblige("E1", f"{cname}: {base}.parse sets <module>.errors = sorted(self.errors) and returns that module", ok=okp)
        if not okp:
            res.add(Finding("E1", f"{base}.parse", "module.errors = sorted(self.errors)",
                            f"{base}.parse does not assign sorted(self.errors) to the errors attribute of the module it "
                            "returns on its path to return", where=f"pvl/parser.py:{fn.lineno}"))


def always_raises(fn):
    """Every path through *fn* ends in raise: no Return/Yield anywhere and the
    last top-level statement is a Raise (or an if/else whose branches all do)."""
    def blk(stmts):
        stmts = [s for s in stmts if not (isinstance(s, ast.Expr) and isinstance(s.value, ast.Constant))]
        if not stmts:
            return False
        last = stmts[-1]
        if isinstance(last, ast.Raise):
            return True
        if isinstance(last, ast.If):
            return bool(last.orelse) and blk(last.body) and blk(last.orelse)
        return False
    if any(isinstance(n, (ast.Return, ast.Yield)) for n in ast.walk(fn)):
        return False
    return blk(fn.body)


def rule_e2(repo, res):
    """Only the permissive parser overrides the empty-value hooks; for the
    strict parser classes they resolve to bodies that raise unconditionally."""
    hooks = ("parse_module_post_hook", "parse_value_post_hook")
    omni_family = set(repo.subclasses("OmniParser"))
    for cname in repo.subclasses("PVLParser"):
        if cname in omni_family:
            continue
        for h in hooks:
            defcls, fn = repo.full_resolved(cname, h)
            if fn is None:
                raise AnalysisError(f"anchor vanished: {cname}.{h}")
            ok = always_raises(fn)
            res.oblige("E2", f"{cname}.{h} resolves to {defcls}.{h}, which raises on every path", ok=ok)
            if not ok:
                res.add(Finding("E2", f"{defcls}.{h}", "raises unconditionally",
                                f"for the strict parser {cname}, {h} resolves to {defcls}.{h}, which can return instead "
                                "of raising: a strict dialect tolerates (or invents) a missing value",
                                where=f"pvl/parser.py:{fn.lineno}"))
        defcls, fn = repo.full_resolved(cname, "parse_assignment_statement")
        handles = [n for n in ast.walk(fn) if isinstance(n, ast.ExceptHandler) and n.type is not None and "ParseError" in norm(n.type)]
        ok = not handles
        res.oblige("E2", f"{cname}.parse_assignment_statement ({defcls}) does not catch ParseError", ok=ok)
        if not ok:
            res.add(Finding("E2", f"{defcls}.parse_assignment_statement", "except ParseError",
                            f"the strict parser {cname} catches ParseError in parse_assignment_statement", where=f"pvl/parser.py:{fn.lineno}"))
    # the base assignment production raises ParseError when tokens run out after '='
    fn = repo.full("PVLParser", "parse_assignment_statement")
    ok = False
    for n in ast.walk(fn):
        if isinstance(n, ast.Try) and any("parse_value" in norm(b) for b in n.body):
            for h in n.handlers:
                if h.type is not None and "StopIteration" in norm(h.type) and any(
                        isinstance(b, ast.Raise) and b.exc is not None and "ParseError" in norm(b.exc) for b in h.body):
                    # the token of the parameter name travels with the error (the permissive parser needs it)
                    r = [b for b in h.body if isinstance(b, ast.Raise)][0]
                    ok = isinstance(r.exc, ast.Call) and len(r.exc.args) >= 2
    res.oblige("E2", "PVLParser.parse_assignment_statement: running out of tokens after '=' raises ParseError(msg, name token)", ok=ok)
    if not ok:
        res.add(Finding("E2", "PVLParser.parse_assignment_statement", "except StopIteration -> ParseError(msg, token)",
                        "running out of tokens after '=' no longer raises ParseError carrying the parameter-name token",
                        where=f"pvl/parser.py:{fn.lineno}"))


def rule_e6(repo, res):
    """E6: the permissive parser turns *every* "ran out of tokens after '='" into the empty-value placeholder: in the
    ParseError handler of OmniParser.parse_assignment_statement, the error is re-raised only when it carries no
    token (path conditions: each raise of the handler lies under `err.token is None`), and the other paths return the
    name with self._empty_value(...)."""
    from . import flow
    for cname in sorted(repo.subclasses("OmniParser")):
        defcls, fn = repo.full_resolved(cname, "parse_assignment_statement")
        if fn is None or defcls not in set(repo.subclasses("OmniParser")):
            continue
        handlers = [h for n in ast.walk(fn) if isinstance(n, ast.Try) for h in n.handlers
                    if h.type is not None and "ParseError" in norm(h.type)]
        res.floor(f"{defcls}.parse_assignment_statement ParseError handlers", len(handlers), 1)
        for h in handlers:
            var = h.name

            def no_token(test, pol):
                if isinstance(test, ast.Compare) and len(test.ops) == 1 and norm(test.left) == f"{var}.token" and norm(test.comparators[0]) == "None":
                    return (isinstance(test.ops[0], ast.Is) and pol) or (isinstance(test.ops[0], ast.IsNot) and not pol)
                return False
            raises = [(st, c) for st, c in flow.stmts_with_conds(h.body) if isinstance(st, ast.Raise)]
            rets = [(st, c) for st, c in flow.stmts_with_conds(h.body) if isinstance(st, ast.Return)]
            bad = [st for st, c in raises if not flow.holds(c, no_token)]
            placeholders = {t_.id for a_ in ast.walk(h) if isinstance(a_, ast.Assign) and isinstance(a_.value, ast.Call)
                            and norm(a_.value.func).split(".")[-1] in ("_empty_value", "EmptyValueAtLine")
                            for t_ in a_.targets if isinstance(t_, ast.Name)}

            def is_placeholder(st):
                txt = norm(st, 400)
                return "_empty_value(" in txt or "EmptyValueAtLine(" in txt or any(
                    isinstance(x, ast.Name) and x.id in placeholders for x in ast.walk(st))
            ok = not bad and bool(rets) and all(is_placeholder(st) for st, _ in rets)
            res.oblige("E6", f"{defcls}.parse_assignment_statement: a ParseError that carries the name token always becomes the "
                             "empty-value placeholder", ok=ok)
            if not ok:
                what = f"`{norm(bad[0], 60)}` re-raises although the error carries the token" if bad else "a return of the handler is not the placeholder"
                res.add(Finding("E6", f"{defcls}.parse_assignment_statement", "handler re-raises a tolerated missing value",
                                f"in the ParseError handler of {defcls}.parse_assignment_statement {what}: a missing value at the "
                                "end of the text is refused in some situations instead of being recorded as an empty value",
                                where=f"pvl/parser.py:{(bad[0] if bad else h).lineno}"))


def regex_may_match_newline(pattern):
    import re._parser as sp
    import re._constants as sc

    def walk(items):
        for op, av in items:
            if op is sc.LITERAL and av == 10:
                return True
            if op is sc.NOT_LITERAL and av != 10:
                return True
            if op is sc.IN:
                neg = any(o is sc.NEGATE for o, _ in av)
                hit = False
                for o, a in av:
                    if o is sc.LITERAL and a == 10:
                        hit = True
                    if o is sc.RANGE and a[0] <= 10 <= a[1]:
                        hit = True
                    if o is sc.CATEGORY and a in (sc.CATEGORY_SPACE, sc.CATEGORY_NOT_DIGIT, sc.CATEGORY_NOT_WORD):
                        hit = True
                if hit != neg:
                    return True
            if op is sc.CATEGORY and av in (sc.CATEGORY_SPACE,):
                return True
            if op in (sc.MAX_REPEAT, sc.MIN_REPEAT):
                if walk(av[2]):
                    return True
            if op is sc.SUBPATTERN:
                if walk(av[3]):
                    return True
            if op is sc.BRANCH:
                if any(walk(b) for b in av[1]):
                    return True
        return False
    return walk(sp.parse(pattern))


def rule_e3(repo, res):
    """Positions and line numbers refer to the caller's text: the string given
    to the lexer and self.doc are the same object, and a whole-document rewrite
    before lexing must not remove line feeds."""
    for cname in repo.subclasses("PVLParser"):
        ci = repo.classes[cname]
        fn = ci.methods.get("parse")
        if fn is None:
            continue
        docv = [n.value for n in ast.walk(fn) if isinstance(n, ast.Assign) and any(self_attr(t) == "doc" for t in n.targets)]
        passed = [n.args[0] for n in ast.walk(fn) if isinstance(n, ast.Call) and n.args and
                  (norm(n.func) == "self.lexer" or (isinstance(n.func, ast.Attribute) and n.func.attr == "parse"
                                                   and norm(n.func.value).startswith("super(")))]
        ok = bool(docv) and bool(passed) and all(norm(d) == norm(p) for d in docv for p in passed)
        res.oblige("E3", f"{cname}.parse: self.doc and the text handed on for lexing are the same object", ok=ok)
        if not ok:
            res.add(Finding("E3", f"{cname}.parse", "self.doc vs lexed text",
                            f"{cname}.parse stores one text in self.doc and lexes another: positions of tokens (used for "
                            "the line numbers of empty values) refer to a different string",
                            where=f"pvl/parser.py:{fn.lineno}"))
        for n in ast.walk(fn):
            if isinstance(n, ast.Call) and norm(n.func) in ("re.sub", "re.subn") and len(n.args) >= 3 and \
                    isinstance(n.args[0], ast.Constant) and isinstance(n.args[0].value, str):
                pat = n.args[0].value
                repl = n.args[1]
                removes_nl = regex_may_match_newline(pat) and not (isinstance(repl, ast.Constant) and "\n" in str(repl.value))
                res.oblige("E3", f"{cname}.parse: re.sub({pat!r}, …) before lexing keeps line structure", ok=not removes_nl)
                if removes_nl:
                    res.add(Finding("E3", f"{cname}.parse", "whole-document rewrite removes line ends before lexing",
                                    f"{cname}.parse rewrites the whole document with re.sub({pat!r}, {norm(repl)}, s) before "
                                    "lexing; the pattern can match a line feed and the replacement has none, so every "
                                    "line number computed afterwards (EmptyValueAtLine.lineno, module.errors, "
                                    "LexerError.lineno) is too small for text after a removed line end",
                                    where=f"pvl/parser.py:{n.lineno}"))


def rule_e4(repo, res):
    """E4: the parser builds its containers by append() only (plus the pop()+append() repair of the last item).
    Item assignment / update / setdefault / insert on a container under construction replaces or drops items with
    the same name (OrderedMultiDict.__setitem__ keeps the first and deletes the others)."""
    n = 0
    for cname in repo.subclasses("PVLParser"):
        for m, fn in repo.classes[cname].methods.items():
            if m == "__init__":
                continue
            # names that hold containers: results of self.modcls()/aggregation_cls(), the `module` parameter of hooks,
            # tuple-unpacked results of parse_module_post_hook
            holders = set()
            for a in fn.args.args:
                if a.arg in ("module", "agg"):
                    holders.add(a.arg)
            for x in ast.walk(fn):
                if isinstance(x, ast.Assign):
                    src = norm(x.value)
                    if src in ("self.modcls()", "self.grpcls()", "self.objcls()") or src.startswith("self.aggregation_cls("):
                        for t in x.targets:
                            if isinstance(t, ast.Name):
                                holders.add(t.id)
                    if "parse_module_post_hook" in src:
                        for t in x.targets:
                            if isinstance(t, ast.Tuple) and t.elts and isinstance(t.elts[0], ast.Name):
                                holders.add(t.elts[0].id)
            if not holders:
                continue
            n += 1
            bad = []
            for x in ast.walk(fn):
                if isinstance(x, (ast.Assign, ast.AugAssign)):
                    tg = x.targets if isinstance(x, ast.Assign) else [x.target]
                    for t in tg:
                        if isinstance(t, ast.Subscript) and isinstance(t.value, ast.Name) and t.value.id in holders:
                            bad.append(x)
                if isinstance(x, ast.Delete):
                    for t in x.targets:
                        if isinstance(t, ast.Subscript) and isinstance(t.value, ast.Name) and t.value.id in holders:
                            bad.append(x)
                if isinstance(x, ast.Call) and isinstance(x.func, ast.Attribute) and isinstance(x.func.value, ast.Name) \
                        and x.func.value.id in holders and x.func.attr in ("update", "setdefault", "insert", "insert_before",
                                                                          "insert_after", "popall", "discard", "clear",
                                                                          "extend", "__setitem__", "popitem"):
                    bad.append(x)
                if isinstance(x, ast.Call) and isinstance(x.func, ast.Attribute) and isinstance(x.func.value, ast.Name) \
                        and x.func.value.id in holders and x.func.attr == "pop" and (x.args or x.keywords):
                    bad.append(x)
            res.oblige("E4", f"{cname}.{m}: containers under construction ({sorted(holders)}) change only by append() / pop()", ok=not bad)
            for x in bad:
                res.add(Finding("E4", f"{cname}.{m}", norm(x, 70),
                                f"{cname}.{m} changes a container under construction with `{norm(x, 70)}`: on the ordered "
                                "multi-dict, item assignment/update keeps the first item of that name and deletes the others, "
                                "so statements of the text go missing or change place when a name is repeated",
                                where=f"pvl/parser.py:{x.lineno}"))
    res.floor("parser methods that build containers", n, 3)


ONE_SHOT = {"iter", "map", "filter", "zip", "reversed", "enumerate", "chain", "chain.from_iterable", "itertools.chain",
            "itertools.chain.from_iterable", "islice", "itertools.islice"}


def rule_one_shot_iterators(repo, res, families=("PVLParser", "PVLDecoder", "PVLEncoder")):
    """E-ITER: no one-shot iterator (generator expression, iter/map/filter/zip/chain object) is stored in an instance
    or class attribute: the first call that walks it exhausts it, so later calls on the same instance see an empty
    table -- state that survives between calls."""
    n = 0
    for base in list(families) + ["PVLGrammar", "Token"]:
        if not repo.has_cls(base):
            continue
        for c in repo.subclasses(base):
            ci = repo.classes[c]
            stores = []
            for m, fn in ci.methods.items():
                for x in ast.walk(fn):
                    if isinstance(x, ast.Assign) and any(self_attr(t) for t in x.targets):
                        stores.append((m, x))
            for name, val in ci.aliases.items():
                stores.append(("<class body>", ast.Assign(targets=[ast.Name(id=name)], value=val, lineno=getattr(val, "lineno", 0))))
            for m, x in stores:
                n += 1
                bad = [y for y in ast.walk(x.value) if isinstance(y, ast.GeneratorExp) and
                       not (isinstance(getattr(y, "_parent", None), ast.Call) and norm(y._parent.func) in
                            ("tuple", "list", "set", "frozenset", "sorted", "dict", "any", "all", "sum", "max", "min", "str.join")
                            or (isinstance(getattr(y, "_parent", None), ast.Call) and isinstance(y._parent.func, ast.Attribute)
                                and y._parent.func.attr == "join"))]
                for y in ast.walk(x.value):
                    if isinstance(y, ast.Call) and norm(y.func) in ONE_SHOT:
                        par = getattr(y, "_parent", None)
                        wrapped = isinstance(par, ast.Call) and norm(par.func) in ("tuple", "list", "set", "frozenset", "sorted", "dict")
                        if not wrapped:
                            bad.append(y)
                res.oblige("E-ITER", f"{c}.{m} `{norm(x, 60)}` stores no one-shot iterator", ok=not bad, nontrivial=False)
                for y in bad:
                    res.add(Finding("E-ITER", f"{c}.{m}", norm(x.targets[0]) + " = … " + norm(y, 50),
                                    f"{c}.{m} stores the one-shot iterator `{norm(y, 60)}` in `{norm(x.targets[0])}`: the first "
                                    "use exhausts it, so every later call on the same instance sees an empty table and "
                                    "behaves differently from a fresh instance", where=f"pvl/{ci.module.name}.py:{x.lineno}"))
    res.floor("attribute stores scanned for one-shot iterators", n, 30)


def rule_e5(repo, res):
    """E5: the permissive parser turns *any* ParseError that carries a token into "missing value after '='"
    (OmniParser.parse_assignment_statement).  So only the designated site -- running out of tokens right after the
    '=' of an assignment -- may attach a token to a ParseError; every other ParseError raised below
    parse_assignment_statement (unterminated set/sequence, missing '=') must not carry one."""
    omni = repo.full("OmniParser", "parse_assignment_statement")
    tolerant = any(isinstance(h, ast.ExceptHandler) and h.type is not None and "ParseError" in norm(h.type) for h in ast.walk(omni))
    res.oblige("E5", "OmniParser.parse_assignment_statement converts only ParseErrors that carry a token", ok=tolerant)
    sites = []
    for cname in repo.subclasses("PVLParser"):
        for m, fn in repo.classes[cname].methods.items():
            for r in ast.walk(fn):
                if isinstance(r, ast.Raise) and isinstance(r.exc, ast.Call) and norm(r.exc.func).endswith("ParseError"):
                    has_token = len(r.exc.args) >= 2 or any(k.arg == "token" for k in r.exc.keywords)
                    sites.append((cname, m, fn, r, has_token))
    res.floor("ParseError raise sites in the parser", len(sites), 3)
    for cname, m, fn, r, has_token in sites:
        designated = False
        if has_token and m == "parse_assignment_statement":
            p = getattr(r, "_parent", None)
            if isinstance(p, ast.ExceptHandler) and p.type is not None and "StopIteration" in norm(p.type):
                t = getattr(p, "_parent", None)
                designated = isinstance(t, ast.Try) and any("parse_value" in norm(b) for b in t.body)
        ok = (not has_token) or designated
        res.oblige("E5", f"{cname}.{m} `{norm(r, 50)}`: {'carries the token at the designated site' if has_token else 'carries no token'}", ok=ok)
        if not ok:
            res.add(Finding("E5", f"{cname}.{m}", "raise ParseError(msg, <token>)",
                            f"{cname}.{m} raises a ParseError that carries a token outside the one designated site (tokens "
                            "ran out right after '=' in parse_assignment_statement); OmniParser.parse_assignment_statement "
                            "treats every token-carrying ParseError as a missing value, so this ill-formed text is "
                            "accepted and the statement replaced by an empty value under a bogus name",
                            where=f"pvl/parser.py:{r.lineno}"))


def rule_e7(repo, res):
    """E7: the placeholder object carries its own line number: EmptyValueAtLine's constructor stores its *lineno*
    argument in the ``lineno`` attribute of the instance it makes -- unconditionally, on the instance (a store on the
    class would be shared by every placeholder of every load) -- and returns that instance."""
    from . import flow
    if "EmptyValueAtLine" not in repo.classes:
        raise AnalysisError("anchor vanished: parser.EmptyValueAtLine")
    stores = []      # (method, statement, unconditional?)
    cls_stores = []
    for cname in repo.mro("EmptyValueAtLine"):
        if cname.startswith("ext:"):
            continue
        ci = repo.classes[cname]
        for mname in ("__new__", "__init__"):
            fn0 = ci.methods.get(mname)
            if fn0 is None:
                continue
            fn = fn0
            params = [a.arg for a in fn.args.posonlyargs + fn.args.args]
            if len(params) < 2:
                continue
            first, arg = params[0], params[1]
            inst = {first} if mname == "__init__" else set()
            if mname == "__new__":
                rets = [n for n in ast.walk(fn) if isinstance(n, ast.Return)]
                for st in ast.walk(fn):
                    if isinstance(st, ast.Assign) and len(st.targets) == 1 and isinstance(st.targets[0], ast.Name) \
                            and isinstance(st.value, ast.Call) and norm(st.value.func).endswith("__new__"):
                        if all(isinstance(r.value, ast.Name) and r.value.id == st.targets[0].id for r in rets) and rets:
                            inst.add(st.targets[0].id)
            for st, conds in flow.stmts_with_conds(fn.body):
                if isinstance(st, ast.Assign):
                    for t in st.targets:
                        if isinstance(t, ast.Attribute) and t.attr == "lineno" and isinstance(t.value, ast.Name):
                            reads = any(isinstance(x, ast.Name) and x.id == arg for x in ast.walk(st.value))
                            if t.value.id in inst and reads:
                                stores.append((f"{cname}.{mname}", st, not conds))
                            elif t.value.id not in inst:
                                cls_stores.append((f"{cname}.{mname}", st))
    ok = any(u for (_, _, u) in stores) and not cls_stores
    res.oblige("E7", "EmptyValueAtLine stores its lineno argument in the lineno attribute of the instance it returns, on every path", ok=ok)
    if not ok:
        if cls_stores:
            w, st = cls_stores[0]
            res.add(Finding("E7", w, f"`{norm(st, 60)}` is not a store on the new instance",
                            f"{w} assigns the line number with `{norm(st, 60)}`, which is not the instance the constructor "
                            "returns: every placeholder reports the line of the most recent one", where=f"pvl/parser.py:{st.lineno}"))
        else:
            res.add(Finding("E7", "EmptyValueAtLine", "no unconditional store of lineno",
                            "no constructor of EmptyValueAtLine stores its lineno argument in the instance's lineno attribute on "
                            "every path: the placeholder cannot say where the value is missing"))


def rule_e8(repo, res):
    """E8: `_empty_value(pos)` finds the parameter's '=' as the last '=' strictly before *pos* (`doc.rfind("=", 0, pos)`,
    an exclusive end), so the position a caller hands over must not lie before the character after that '='.  The callers
    know a token that follows the '=' (its `.pos` is at least one past it) or the '=' itself (`find("=", ..) + 1`); the
    argument must be such a base plus a constant >= 0 -- a base reduced by a constant can exclude the very '=' when the
    token stands directly against it, and the line of an earlier '=' is reported.  Also: the search inside
    _empty_value ends at *pos* itself."""
    from .canon import canon
    n = 0
    if "OmniParser" not in repo.classes:
        raise AnalysisError("anchor vanished: parser.OmniParser")

    def linear(e):
        """(base text, constant) of base + c / base - c / base; None otherwise"""
        if isinstance(e, ast.BinOp) and isinstance(e.op, (ast.Add, ast.Sub)) and isinstance(e.right, ast.Constant) \
                and isinstance(e.right.value, int) and not isinstance(e.right.value, bool):
            inner = linear(e.left)
            if inner is None:
                return None
            return inner[0], inner[1] + (e.right.value if isinstance(e.op, ast.Add) else -e.right.value)
        if isinstance(e, ast.BinOp) and isinstance(e.op, ast.Add) and isinstance(e.left, ast.Constant) and isinstance(e.left.value, int):
            inner = linear(e.right)
            return None if inner is None else (inner[0], inner[1] + e.left.value)
        if isinstance(e, (ast.Attribute, ast.Name, ast.Call, ast.Subscript)):
            return norm(e, 200), 0
        return None
    def is_eq_search(call):
        return isinstance(call, ast.Call) and isinstance(call.func, ast.Attribute) and call.func.attr == "rfind" and call.args \
            and isinstance(call.args[0], ast.Constant) and call.args[0].value == "="
    for cname in sorted(repo.subclasses("OmniParser")):
        ci = repo.classes[cname]
        for mname, fn0 in ci.methods.items():
            fn = canon(repo, cname, fn0, module=ci.module.name)
            params = {a.arg for a in fn0.args.args}
            # the position expressions: arguments of _empty_value(...) where the helper was not read in place, and the end
            # of the backwards search for '=' where it was
            sites = [(x, x.args[0]) for x in ast.walk(fn) if isinstance(x, ast.Call) and isinstance(x.func, ast.Attribute)
                     and x.func.attr == "_empty_value" and x.args]
            sites += [(x, x.args[2]) for x in ast.walk(fn) if is_eq_search(x) and len(x.args) >= 3]
            for call, pos in sites:
                n += 1
                lf = linear(pos)
                if lf is None:
                    raise AnalysisError(f"E8: the position `{norm(pos, 80)}` in {cname}.{mname} is not of the form base + constant")
                base, c = lf
                # a base that is itself `find("=", ...)` is the '=': it needs + 1 at least
                need = 1 if (".find(" in base or ".index(" in base or ".rfind(" in base) and "'='" in base.replace('"', "'") else 0
                ok = c >= need
                res.oblige("E8", f"{cname}.{mname}: the search for the parameter's '=' ends at `{norm(pos, 60)}`, not before the character after the '='", ok=ok)
                if not ok:
                    res.add(Finding("E8", f"{cname}.{mname}", f"position {norm(pos, 60)}",
                                    f"{cname}.{mname} looks for the parameter's '=' strictly before `{norm(pos, 80)}`: when the next token "
                                    "stands directly against the '=' the search misses it and the placeholder (and module.errors) reports "
                                    "the line of an earlier '='", where=f"pvl/parser.py:{call.lineno}"))
    res.floor("E8 position arguments of _empty_value", n, 4)


def rule_iter_mut(repo, res, modules=("encoder", "parser", "__init__", "new", "pvl_translate", "pvl_validate")):
    """ITER-MUT: a container is not changed while a live view of it is being iterated: inside `for .. in X.items()` (or
    .keys() / .values() / X itself) an assignment `X[k] = ..`, a `del X[k]` or a mutating call on X is followed -- in the
    same block -- by leaving the loop (break / return / raise) before the next step of the iteration.  The default
    container family tolerates going on (its views are backed by a list that is rewritten in place), the multidict family
    raises RuntimeError("Dictionary changed during iteration"): the same label then dumps with one loader's result and
    not with the other's."""
    n = 0
    for mname in modules:
        if mname not in repo.modules:
            continue
        mod = repo.module(mname)
        fns = [(f"{mname}.{k}", v) for k, v in mod.functions.items()]
        for cname in mod.classes:
            if cname in repo.classes:
                fns += [(f"{cname}.{k}", v) for k, v in repo.classes[cname].methods.items()]
        for label, fn in fns:
            for loop in [x for x in ast.walk(fn) if isinstance(x, ast.For)]:
                it = loop.iter
                if isinstance(it, ast.Call) and isinstance(it.func, ast.Attribute) and it.func.attr in ("items", "keys", "values") and not it.args:
                    base = norm(it.func.value)
                elif isinstance(it, ast.Name):
                    base = it.id
                else:
                    continue
                for st in [x for b in loop.body for x in ast.walk(b) if isinstance(x, ast.stmt)]:
                    mut = None
                    if isinstance(st, (ast.Assign, ast.AugAssign)):
                        for t in (st.targets if isinstance(st, ast.Assign) else [st.target]):
                            if isinstance(t, ast.Subscript) and norm(t.value) == base:
                                mut = st
                    if isinstance(st, ast.Delete) and any(isinstance(t, ast.Subscript) and norm(t.value) == base for t in st.targets):
                        mut = st
                    if isinstance(st, ast.Expr) and isinstance(st.value, ast.Call) and isinstance(st.value.func, ast.Attribute) \
                            and norm(st.value.func.value) == base and st.value.func.attr in MUTATORS:
                        mut = st
                    if mut is None:
                        continue
                    n += 1
                    # the rest of the block that holds the mutation ends the loop?
                    par = getattr(mut, "_parent", None)
                    leaves = False
                    for field in ("body", "orelse", "finalbody"):
                        blk = getattr(par, field, None)
                        if isinstance(blk, list) and mut in blk:
                            rest = blk[blk.index(mut) + 1:]
                            leaves = bool(rest) and isinstance(rest[-1], (ast.Break, ast.Return, ast.Raise)) and not any(
                                isinstance(y, (ast.For, ast.While)) for r_ in rest for y in ast.walk(r_))
                    res.oblige("ITER-MUT", f"{label}: `{norm(mut, 50)}` inside `for .. in {norm(it, 30)}` is followed by leaving the loop", ok=leaves)
                    if not leaves:
                        res.add(Finding("ITER-MUT", label, f"`{norm(mut, 50)}` while iterating {norm(it, 30)}",
                                        f"{label} executes `{norm(mut, 60)}` inside `for .. in {norm(it, 40)}` and goes on iterating: a container "
                                        "of the multidict family raises RuntimeError (changed during iteration) on the next step, one of the "
                                        "default family carries on -- the same label dumps after pvl.load and fails after pvl.new.load",
                                        where=f"pvl/{mname}.py:{mut.lineno}"))
    res.oblige("ITER-MUT", f"{n} mutation(s) of a container inside a loop over its own view examined", ok=True, nontrivial=False)
