"""Entry point:  python -m vsa.main <property> [quick|thorough] [--replay path]"""
import importlib
import json
import os
import sys

from .core import run_check


def main(argv):
    if not argv:
        print("usage: check <property> [quick|thorough] [--replay path]")
        return 2
    prop = argv[0]
    tier = os.environ.get("VERIF_TIER") or "quick"
    replay = None
    rest = argv[1:]
    i = 0
    while i < len(rest):
        a = rest[i]
        if a in ("quick", "thorough"):
            tier = a
        elif a == "--replay":
            replay = rest[i + 1]
            i += 1
        i += 1
    if tier not in ("quick", "thorough"):
        tier = "quick"
    try:
        mod = importlib.import_module(f"vsa.rules.{prop}")
    except ModuleNotFoundError:
        print(f"ANALYSIS-ERROR property={prop} no rule set")
        return 2
    if replay:
        try:
            with open(replay) as f:
                r = json.load(f)
            print(f"replay of {r.get('key')}: re-analysing /repo's current source; the finding is reported again "
                  f"below if the construct still violates rule {r.get('rule')}")
            print(json.dumps(r, indent=1))
        except OSError as e:
            print(f"cannot read replay file: {e}")
    return run_check(prop, tier, mod.run, replay=replay)


if __name__ == "__main__":
    sys.exit(main(sys.argv[1:]))
