#!/venv/bin/python
"""Maintenance helper (never run by a check): appends the violations of evidence/<prop>.json that match --rule
to known_findings.json after the defect was reproduced against the real code by hand.
usage: record_known.py PROP --rule RULE --input "<reproducing input>" --why "<why recorded rather than repaired>" """
import argparse, json, os
V = os.path.dirname(os.path.dirname(os.path.abspath(__file__)))
ap = argparse.ArgumentParser()
ap.add_argument("prop"); ap.add_argument("--rule", required=True); ap.add_argument("--input", required=True)
ap.add_argument("--why", required=True); ap.add_argument("--also", default="")
a = ap.parse_args()
ev = json.load(open(os.path.join(V, "evidence", a.prop + ".json")))
kf = json.load(open(os.path.join(V, "known_findings.json")))
have = {e["key"]: e for e in kf["findings"]}
n = 0
for v in ev["coverage"]["violations"]:
    if v["rule"] != a.rule:
        continue
    props = [a.prop] + [p for p in a.also.split(",") if p]
    if v["key"] in have:
        for p in props:
            if p not in have[v["key"]]["properties"]:
                have[v["key"]]["properties"].append(p)
        continue
    kf["findings"].append({"properties": props, "key": v["key"], "what": v["message"][:400],
                           "input": a.input + (f" (witness {v['witness']!r})" if v.get("witness") is not None else ""),
                           "why_recorded": a.why})
    n += 1
json.dump(kf, open(os.path.join(V, "known_findings.json"), "w"), indent=1, ensure_ascii=False)
print("recorded", n)
