#!/bin/sh
# usage: runall.sh <tree> <tag>
tree=$1; tag=$2
for p in C01 C02 C03 C04 C05 C06 C08 C09 C10 C11 C12 C13 C14 C15 C16 C17 C18 C19 C20; do (VSA_REPO=$tree VSA_EVIDENCE_DIR=/tmp/ev-$tag /verif/check $p quick > /tmp/$tag-$p.out 2>&1; echo "$p=$?") & done | sort | tr '\n' ' '; wait; echo
grep -h -E "^(ANALYSIS-ERROR|FINDING)" /tmp/$tag-C*.out | cut -c1-330 | sort | uniq -c | sort -rn | head -40
