#!/venv/bin/python
"""Evaluates a seeded change left applied in a scratch worktree:
  eval_seed.py <worktree> <property-id> [--keep]
1. saves `git diff -- pvl` ; 2. baseline tests with the change ; 3. demo.py with / without the change ;
4. every registered check with VSA_REPO=<worktree> (evidence written to a temp dir, /verif/evidence untouched).
Prints a JSON summary; with --keep writes /verif/seeded/<id>-<n>/ (patch.diff, demo.py, meta.json)."""
import json, os, subprocess, sys, tempfile, shutil
V = os.path.dirname(os.path.dirname(os.path.abspath(__file__)))
wt, pid = sys.argv[1], sys.argv[2]
keep = "--keep" in sys.argv
name = None
for a in sys.argv[3:]:
    if a.startswith("--name="):
        name = a.split("=", 1)[1]
run = lambda cmd, **kw: subprocess.run(cmd, capture_output=True, text=True, **kw)
diff = run(["git", "-C", wt, "diff", "--", "pvl"]).stdout
if not diff.strip():
    print("no change applied under pvl/"); sys.exit(2)
env = dict(os.environ, PYTHONPATH=wt)
base = run([os.path.join(V, "tools", "baseline.py"), wt])
demo = os.path.join(wt, "demo.py")
with_change = run(["/venv/bin/python", demo], cwd=wt, env=env, timeout=300) if os.path.exists(demo) else None
# (git stash is shared by all worktrees of a repository: use apply -R / apply instead)
pf = tempfile.NamedTemporaryFile("w", suffix=".diff", delete=False)
pf.write(diff); pf.close()
r1 = run(["git", "-C", wt, "apply", "-R", pf.name])
assert r1.returncode == 0, r1.stderr
try:
    without = run(["/venv/bin/python", demo], cwd=wt, env=env, timeout=300) if os.path.exists(demo) else None
finally:
    r2 = run(["git", "-C", wt, "apply", pf.name])
    assert r2.returncode == 0, r2.stderr
    os.unlink(pf.name)
man = json.load(open(os.path.join(V, "MANIFEST.json")))
tmp = tempfile.mkdtemp(prefix="vsa-ev-")
detected = {}
errors = {}
from concurrent.futures import ThreadPoolExecutor
def one(c):
    e = dict(os.environ, VSA_REPO=wt, VSA_EVIDENCE_DIR=tmp)
    r = subprocess.run(c["quick_cmd"], shell=True, cwd=V, env=e, capture_output=True, text=True)
    return c["property_id"], r
with ThreadPoolExecutor(max_workers=8) as ex:
    for prop, r in ex.map(one, man["checks"]):
        if r.returncode == 1:
            detected[prop] = [l for l in r.stdout.splitlines() if l.startswith("FINDING")]
        elif r.returncode != 0:
            errors[prop] = r.stdout[-600:]
shutil.rmtree(tmp, ignore_errors=True)
summary = {
    "property": pid, "worktree": wt,
    "baseline_ok": base.returncode == 0, "baseline": base.stdout.strip().splitlines()[:4],
    "demo_with_change_exit": None if with_change is None else with_change.returncode,
    "demo_without_change_exit": None if without is None else without.returncode,
    "detected_by": {k: [x[:260] for x in v] for k, v in detected.items()},
    "analysis_errors": errors,
    "files_changed": sorted({l[6:] for l in diff.splitlines() if l.startswith("+++ b/")}),
}
print(json.dumps(summary, indent=1))
if keep:
    name = name or pid
    d = os.path.join(V, "seeded", name)
    os.makedirs(d, exist_ok=True)
    open(os.path.join(d, "patch.diff"), "w").write(diff)
    if os.path.exists(demo):
        shutil.copy(demo, os.path.join(d, "demo.py"))
    json.dump(summary, open(os.path.join(d, "eval.json"), "w"), indent=1)
