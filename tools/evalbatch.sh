#!/bin/sh
# usage: [WT=/tmp/wt] evalbatch.sh <round-suffix> ids...
suf=$1; shift
WT=${WT:-/tmp/wt}
for w in "$@"; do /verif/tools/eval_seed.py $WT/$w $w --name=$w-$suf 2>&1 | /venv/bin/python -c "
import json,sys; d=json.load(sys.stdin); print(d['property'], 'base',d['baseline_ok'],'demo',d['demo_with_change_exit'],d['demo_without_change_exit'], 'own' if d['property'] in d['detected_by'] else '---', 'detected:', sorted(d['detected_by']), 'errors:', {k:v[:100] for k,v in d['analysis_errors'].items()})"; git -C $WT/$w diff -- pvl > /tmp/$w-$suf.patch; cp $WT/$w/demo.py /tmp/$w-$suf-demo.py; done
