#!/bin/sh
# usage: evalbatch.sh <round-suffix> ids...
suf=$1; shift
for w in "$@"; do /verif/tools/eval_seed.py /tmp/wt/$w $w --name=$w-$suf 2>&1 | /venv/bin/python -c "
import json,sys; d=json.load(sys.stdin); print(d['property'], 'base',d['baseline_ok'],'demo',d['demo_with_change_exit'],d['demo_without_change_exit'], 'own' if d['property'] in d['detected_by'] else '---', 'detected:', sorted(d['detected_by']), 'errors:', {k:v[:100] for k,v in d['analysis_errors'].items()})"; git -C /tmp/wt/$w diff -- pvl > /tmp/$w-$suf.patch; cp /tmp/wt/$w/demo.py /tmp/$w-$suf-demo.py; done
