#!/venv/bin/python
"""Generates MANIFEST.json from the rule sets present under vsa/rules."""
import json, os, importlib, sys
V = os.path.dirname(os.path.dirname(os.path.abspath(__file__)))
sys.path.insert(0, V)
props = [json.loads(l) for l in open(os.path.join(V, "properties.jsonl"))]

TECH = {
 "C01": "string-language inclusion on automata built from the encoder's quoting predicates and the decoder's classifiers; language model of the lexer's end-of-lexeme decision vs the number/time texts the encoders write; isinstance-dispatch order; flow-sensitive taint of quoted text to textwrap; inclusion of the number / time text languages the writers produce in the reader's classes; keyword tables as the grammar class bodies build them (derived table, group/object disjointness); the strict reader lexes the text unchanged (parameter-identity of the lexer's text argument); isinstance tests on decoded values respect real_cls; productions add pairs with append only; fixed quote characters are absent from the text they wrap",
 "C02": "string-language intersection (bare-written strings vs the permissive reader's classes); regex first-character sets of the whole-document rewrite; table inclusion; lexer end-of-lexeme language model for written numbers and times; written-number language vs the permissive reader's decimal class; explicit-state exploration of the lexer step function (a non-white-space character is kept in the lexeme); sign test of the zone offset not on an abs() value; language of the units token the default reader accepts; fixed quote characters are absent from the text they wrap",
 "C03": "grammar table consistency (derived keyword tables, reserved characters, lexer/decoder regex language inclusion); permissive-delegation language check; language model of the lexer's end-of-lexeme decision; guard/return analysis of aggregation_cls; path conditions of Token.__init__; inclusion of the specification's based-integer language in the decoder's; single-character table entries; entry points hand the text on unchanged (outcome terms); lexer call arguments; container-class keywords of the pvl.new loaders",
 "C04": "token-protocol abstract interpretation (skip-before-read on all paths) + comment-table/lexer agreement + language equality of Token.is_comment/is_space with the grammar tables + path conditions of Token.__init__ + explicit-state exploration of the comment automaton (lexer step function interpreted over delimiter characters); path walk of the skip helpers' token loops with is_WSC() as tracked fact; grammar table characters within char_allowed (interval analysis); single-character table entries; explicit-state transition table of the preservation states; line-end translation of the command-line input and of every route of get_text_from",
 "C05": "token-stream protocol abstract interpretation of the recursive-descent parser (push-back, LexerError pass-through, fall-through) on all paths; language equality of the silently skipped token classes and of the accepted units token (DFA pre-images of strip/slice/partition); exception-lattice check of QuantityError against the parser's handlers; StopIteration from the block productions not caught below parse(); interval analysis of char_allowed",
 "C06": "exception-propagation and loop-progress analysis on the token-protocol abstract interpreter, enumerated may-raise sources; who-may-attach-a-token rule for ParseError; explicit-state exploration of the lexer step function at the ends of the text (no TypeError from a missing neighbour); constant-index subscripts of texts on the entry path dominated by a non-emptiness test; forwarded parameters land in the same-named parameter of the callee; grammar patterns a dialect sets to None are guarded where used; substitute classes called positionally; operations on the caller's real class stay inside the InvalidOperation handler",
 "C08": "who-may-construct + def-use of the line number + MRO resolution of the hooks + regex syntax-tree check of the whole-document rewrite + sibling agreement of the repair hook with parse_assignment_statement (production call sequence) + outcome terms of the entry points (the parser numbers the caller's text); store-on-the-returned-instance check of the placeholder's constructor; linear form of the position handed to the '=' search; lexer works on the caller's text; paired writes of the container mutators the repair hook uses; loop-flag / hook-result agreement of parse_module; no regex flag in a count position",
 "C09": "token-protocol abstract interpretation (nothing pulled after END) + path-forking outcome-term enumeration of the entry points (forwarding, decoding, writes) + laziness checks + taint of the saved stream position to seek(); language inclusion of dash + each line-end form in the whole-document rewrite pattern; byte-level stream for the by-character fall-back; the value repair hook sends its token back before every return; positional forwarding order; no block keyword / END is a value for any decoder",
 "C10": "method-resolution provider table (MRO incl. dict/abc mix-ins) + paired-write path effects of every mutator + view interface check + no key-by-key re-lookup over a mapping's own keys + value-independent append; emptiness guard of storage deletes; identity-comparison scan of the container module; get() reads the first value; no None-sentinel for key presence; reduction / copy hooks do not share the item list; no mutable parameter default; no tuple-only pair test",
 "C11": "reduction-protocol rule for dict subclasses with split representation + fresh-list/no-alias check + no back-reference in instance state carried by the reduction + pairwise filling of copy hooks; identity-comparison scan and structural equality clause of the container; copy hooks build type(self); append / constructor total on keys, values and the empty list; no wholesale carry-over of the instance dictionary in copy hooks; __setstate__ restores attributes; __ne__ is the negation of __eq__",
 "C12": "structural checks of the encoder (fixed PDS3 configuration, delimiter control dependence, keyword pairing, guards dominating emission, character sweep) + taint to textwrap; delimiter emission depends on end_delimiter only (enclosing-test analysis); dialect encoders keep their own grammar class (constructor abstract interpretation); no key-by-key re-lookup; symbol length bound of is_symbol()",
 "C13": "parameter-mutation effect analysis of encoder methods (helpers attributed to their entry point) + effect summary of OrderedMultiDict.__setitem__ + paired-write effects of the container mutators + instance-state writes; documented assignment semantics of the container (structural); no mutation of a container inside a loop over its own view; in-place augmented assignment of class-level tables",
 "C14": "default-zone/leap-second/format tables; field-consumption, sign-alphabet and fraction-padding rules on the encode_time implementations (canonical form); path conditions of every return of the PDS3 time writer; writer/reader time-language inclusion; lexer end-of-lexeme language model for date/times; language of every text a time writer can return (all return paths) included in its reader's time language; outcome terms of decode_datetime; exact image of strip() on the written-time language with path facts on second/microsecond; two-digit time fields; isinstance dispatch order of encode_datetype; entry points forward the decoder; LexerError pass-through of the parser's handlers (token-protocol rule T2); by-name look-ups of grammar tables; two-character hour/minute/second fragments of the time patterns",
 "C15": "interval abstract interpretation of char_allowed over all code points; dominance of the character check in the lexer; def-use/linear-form check of error positions; explicit-state exploration of the lexer step function (characters outside the grammar's white space are kept); lexer gets the parser's grammar and the caller's text; parser built from a decoder alone uses that decoder's grammar; entry points (pvl and pvl.new) hand text and grammar on; byte-stream read loop of the by-character fall-back; ParseError only where the token stream is exhausted",
 "C16": "instance-state effect analysis (attributes written on per-call paths must be reset in the entry point); shared-state write scan; no mutable parameter default",
 "C17": "delegation check of token predicates + language equivalence of Token.is_unquoted_string and the decoder's unquoted-string class; bare-string inclusion; constructor abstract interpretation: one grammar per reader; textwrap flags of the wrapping step; quoting decisions do not classify the text with float()/int() themselves",
 "C18": "who-constructs check (only real_cls/quantity_cls/modcls/grpcls/objcls on value paths) + isinstance(float) scan on decoded values + guard/return analysis of aggregation_cls + exception-lattice check of QuantityError + unconverted collection of parsed elements in sets/sequences; keyword tables (no begin keyword names both a group and an object); instance-state effects of the decoder and parser families; forwarding order of the hook classes; entry points reach the parser for every text",
 "C19": "sibling comparison of pvl.new against pvl on outcome terms of the entry points + container-family discrimination of isinstance tests + member provision table + documented list semantics of the default container family (structural); shared class-level state and memo scan of the parser/decoder/encoder families; no ==/!= between a container and a literal in parser/encoder/entry points; no mutation of a container inside a loop over its own view",
 "C20": "dispatch tables evaluated from the module top level (formats, dialects) + forwarding chain (canonical form) + outcome enumeration of pvl_flavor (verdict pair per exception class and handler) + per-file freshness of the results mapping + provider/consumer kind of the file arguments; symbolic list lengths of report cells vs widths; every writer returns the library's dump on every path; write forms of pvl.dump; the by-character fall-back never lets a UnicodeError out; instance-state effects of the encoders the tools keep per dialect",
}
NA = {"C07": "every clause compares run-time values (idempotence of folding regexes as transducers, byte identity of a second dump); the only static necessary condition -- a bare-written string must not re-read as another type -- is rule S1, claimed under C01/C02/C17, not twice"}

checks, na = [], []
for p in props:
    pid = p["id"]
    have = os.path.exists(os.path.join(V, "vsa", "rules", pid + ".py"))
    if pid in NA:
        na.append({"property_id": pid, "reason": NA[pid]})
        continue
    if not have:
        na.append({"property_id": pid, "reason": "rule set not built yet (see DESIGN.md section 3 for the planned clauses)"})
        continue
    mod = importlib.import_module(f"vsa.rules.{pid}")
    doc = (mod.__doc__ or "").strip().splitlines()[0]
    checks.append({
        "property_id": pid,
        "quick_cmd": f"./check {pid} quick",
        "thorough_cmd": f"./check {pid} thorough",
        "evidence_file": f"evidence/{pid}.json",
        "replay_cmd_template": f"./check {pid} --replay {{path}}",
        "engine": "vsa",
        "level_claimed": {
            "category": "other",
            "text": "static analysis of /repo's current source: decides the structural clauses named in DESIGN.md section 3/" + pid +
                    " (necessary conditions of the property) on all paths / all table entries / all strings; it does not compute values, "
                    "so the behavioural remainder of the property is explicitly not decided",
            "design_ref": "DESIGN.md section 3, " + pid},
        "level_note": "trusted base: CPython's ast/re parsers, the frozen models of the generator protocol, int()/float()/strptime "
                      "languages and library may-raise table (DESIGN 2.4-2.7); pvl/grammar.py is loaded in isolation to resolve its constant tables",
        "technique": TECH[pid],
    })
m = {
 "version": 1,
 "setup_cmd": "/venv/bin/python -m compileall -q vsa",
 "hooks": {"guard": "PLANETARYPY_PVL_VERIF",
           "enable": "unused: the checks read /repo's working tree as source text; nothing is instrumented or compiled in",
           "baseline_off_cmd": "cd /repo && /venv/bin/python -m pytest -ra -q -p no:cacheprovider --timeout=900 --continue-on-collection-errors",
           "source_commits": [], "add_only": True},
 "engines": [{"name": "vsa", "path": "vsa/", "serves_properties": [c["property_id"] for c in checks],
              "kind_free_text": "purpose-built static analyser (ast): token-protocol abstract interpreter, string-language automata with a partial evaluator of the predicates, lexer language model, interval interpreter, flow-sensitive taint / path-condition walker, thin-helper inlining and canonical form, effect and table rules"}],
 "checks": checks,
 "not_applicable": na,
 "notes": "Exit codes: 0 held (KNOWN-FINDING lines for recorded defects), 1 VIOLATION, 2 ANALYSIS-ERROR (anchor vanished / unknown syntax / instance floor missed). VSA_REPO overrides the analysed tree (self-tests on scratch copies only).",
}
json.dump(m, open(os.path.join(V, "MANIFEST.json"), "w"), indent=1)
print(len(checks), "checks;", len(na), "not applicable")
