#!/bin/sh
# try_patch.sh <patch> [props...]  : applies a patch to the scratch worktree /tmp/wt/X, runs checks, reverts
P=$1; shift
git -C /tmp/wt/X checkout -q -- . && git -C /tmp/wt/X apply "$P" || exit 2
PROPS="$@"; [ -z "$PROPS" ] && PROPS="C01 C02 C03 C04 C05 C06 C08 C09 C10 C11 C12 C13 C14 C15 C16 C17 C18 C19 C20"
for p in $PROPS; do VSA_REPO=/tmp/wt/X VSA_EVIDENCE_DIR=/tmp/evX /verif/check $p quick 2>&1 | grep -v "^KNOWN\|        witness" | grep "FINDING\|ANALYSIS\|quick:" | cut -c1-240 | grep -v " 0 violation"; done
git -C /tmp/wt/X checkout -q -- .
