#!/venv/bin/python
"""Runs the pinned suite in a repo tree and checks every stable_pass test of BASELINE.json passes.
usage: baseline.py [repo_root]"""
import json, subprocess, sys, tempfile, os
import xml.etree.ElementTree as ET
root = sys.argv[1] if len(sys.argv) > 1 else "/repo"
base = json.load(open("/root/.vp/BASELINE.json"))
with tempfile.TemporaryDirectory() as td:
    out = os.path.join(td, "j.xml")
    env = dict(os.environ)
    env.pop("PLANETARYPY_PVL_VERIF", None)
    if root != "/repo":
        env["PYTHONPATH"] = root
    p = subprocess.run(["/venv/bin/python", "-m", "pytest", "-q", "-p", "no:cacheprovider", "--timeout=900",
                        "--continue-on-collection-errors", f"--junitxml={out}"], cwd=root, env=env,
                       capture_output=True, text=True)
    t = ET.parse(out)
    status = {}
    for tc in t.iter("testcase"):
        name = f"{tc.get('classname')}::{tc.get('name')}"
        bad = any(c.tag in ("failure", "error", "skipped") for c in tc)
        status[name] = not bad
missing = [n for n in base["stable_pass"] if not status.get(n)]
print(f"stable_pass {len(base['stable_pass'])}, passing now {sum(1 for n in base['stable_pass'] if status.get(n))}")
for m in missing:
    print("  NOT PASSING:", m)
sys.exit(1 if missing else 0)
