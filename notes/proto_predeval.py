"""Throwaway prototype: language-valued partial evaluator over the AST of pvl's string predicates /
decoder methods.  For a function f(self, value) it computes, as DFAs over the string under test:
  T  strings for which f returns a truthy bool        F  ... falsy bool / None
  ID strings for which f returns the input string itself (unchanged)
  V  strings for which f returns some other value      E  strings for which f raises ValueError
Concrete values come from the resolved grammar tables; nothing of pvl's behaviour is executed.
"""
import ast
import re
import sys
import strlang as SL
from strlang import DFA, rx, anyof, star, contains_any_char, contains_substr, union, concat, EVERYTHING, SIGMA, G

EMPTY = ~EVERYTHING
R = "/repo/pvl/"
MODS = {m: ast.parse(open(R + m + ".py").read()) for m in ("token", "decoder", "encoder")}
CLASSES, BASES, METHODS = {}, {}, {}
for m, t in MODS.items():
    for n in t.body:
        if isinstance(n, ast.ClassDef):
            CLASSES[n.name] = n
            BASES[n.name] = n.bases[0].id if n.bases and isinstance(n.bases[0], ast.Name) and n.bases[0].id != "object" else None
            METHODS[n.name] = {f.name: f for f in n.body if isinstance(f, ast.FunctionDef)}


def resolve(cls, name, after=None):
    c = BASES.get(after) if after else cls
    while c and c in METHODS:
        if name in METHODS[c]:
            return c, METHODS[c][name]
        c = BASES.get(c)
    return None, None


class Unsupported(Exception):
    pass


class Conc:                      # concrete python value
    def __init__(self, v): self.v = v
    def __repr__(self): return f"Conc({self.v!r})"


class Str:                       # the string under test (or an alias / str() of it)
    pass


class Ch:                        # a character variable ranging over the chars of the string
    pass


class FirstCh:
    pass


class Match:                     # "is not None" language of a variable (regex match, or value-or-None)
    def __init__(self, d, pattern=None): self.d, self.pattern = d, pattern


class GroupDict:
    def __init__(self, m): self.m = m


class Opaque(Exception):
    """condition on a runtime value that does not depend on the classification of the string"""


class Bool:                      # boolean over the string: language where true
    def __init__(self, d): self.d = d


STR = Str()


class Ctx:
    def __init__(self, cls, grammar, decoder_cls, encoder_cls=None, width=80):
        self.cls, self.grammar, self.decoder_cls, self.encoder_cls, self.width = cls, grammar, decoder_cls, encoder_cls, width


MEMO = {}


def run(cls, fname, ctx, after=None):
    """Evaluate method `fname` resolved on class `cls` with the string as its (only) value argument."""
    defcls, fn = resolve(cls, fname, after)
    if fn is None:
        raise Unsupported(f"no method {cls}.{fname}")
    key = (defcls, fname, cls, type(ctx.grammar).__name__, ctx.decoder_cls, ctx.encoder_cls)
    if key in MEMO:
        return MEMO[key]
    params = [a.arg for a in fn.args.args]
    env = {}
    is_static = any(isinstance(d, ast.Name) and d.id == "staticmethod" for d in fn.decorator_list)
    if cls == "Token" or defcls == "Token":
        env["self"] = STR                   # a Token *is* the string
    for p in params:
        if p in ("value", "s") :
            env[p] = STR
    ev = Eval(ctx, cls, defcls, env)
    out = ev.block(fn.body, EVERYTHING)
    res = {k: out.get(k, EMPTY) for k in ("T", "F", "ID", "V", "E")}
    res["F"] = res["F"] | out.get("N", EMPTY)      # falling off the end returns None (falsy)
    MEMO[key] = res
    return res


class Eval:
    def __init__(self, ctx, cls, defcls, env):
        self.ctx, self.cls, self.defcls, self.env = ctx, cls, defcls, dict(env)

    # ---- concrete expression evaluation (grammar tables, constants)
    def conc(self, e):
        if isinstance(e, ast.Constant):
            return e.value
        if isinstance(e, ast.Name):
            v = self.env.get(e.id)
            if isinstance(v, Conc):
                return v.v
            raise Unsupported(f"not concrete: {e.id}")
        if isinstance(e, ast.Attribute):
            if ast.unparse(e.value) in ("self.grammar", "self.decoder.grammar"):
                return getattr(self.ctx.grammar, e.attr)
            if ast.unparse(e) == "self.width":
                return self.ctx.width
            if ast.unparse(e) in ("self.symbol_single_quote",):
                return True
            base = self.conc(e.value)
            return getattr(base, e.attr)
        if isinstance(e, ast.Subscript):
            return self.conc(e.value)[self.conc(e.slice)]
        if isinstance(e, ast.Tuple):
            return tuple(self.conc(x) for x in e.elts)
        if isinstance(e, ast.BinOp) and isinstance(e.op, ast.Div):
            return self.conc(e.left) / self.conc(e.right)
        if isinstance(e, ast.Call) and ast.unparse(e.func) == "chain.from_iterable":
            return [y for x in self.conc(e.args[0]) for y in x]
        if isinstance(e, ast.Call) and isinstance(e.func, ast.Attribute) and e.func.attr in ("items", "keys", "values", "casefold"):
            return getattr(self.conc(e.func.value), e.func.attr)()
        raise Unsupported("conc " + ast.unparse(e)[:60])

    def is_str(self, e):
        """does expression denote the string under test?"""
        if isinstance(e, ast.Name):
            return isinstance(self.env.get(e.id), Str) or e.id == "value" and "value" in self.env and isinstance(self.env["value"], Str)
        if isinstance(e, ast.Call) and isinstance(e.func, ast.Name) and e.func.id == "str" and len(e.args) == 1:
            return self.is_str(e.args[0])
        return False

    def mentions_str(self, e):
        for n in ast.walk(e):
            if isinstance(n, ast.Name) and isinstance(self.env.get(n.id), (Str, Match, GroupDict)) and not isinstance(self.env.get(n.id), GroupDict):
                return True
        return False

    def cond(self, e, reach):
        try:
            return self.cond0(e, reach)
        except Unsupported:
            if not self.mentions_str(e):
                raise Opaque(ast.unparse(e))
            raise

    # ---- conditions: language (within reach) where expr is truthy
    def cond0(self, e, reach):
        if isinstance(e, ast.BoolOp):
            if isinstance(e.op, ast.And):
                cur = reach
                for v in e.values:
                    cur = self.cond(v, cur)
                return cur
            acc, rest = EMPTY, reach
            for v in e.values:
                t = self.cond(v, rest)
                acc, rest = acc | t, rest - t
            return acc
        if isinstance(e, ast.UnaryOp) and isinstance(e.op, ast.Not):
            return reach - self.cond(e.operand, reach)
        if isinstance(e, ast.Constant):
            return reach if e.value else EMPTY
        if isinstance(e, ast.Attribute) and ast.unparse(e).startswith("self.") and not ast.unparse(e).startswith("self.grammar"):
            return reach if self.conc(e) else EMPTY
        if isinstance(e, ast.Name):
            v = self.env.get(e.id)
            if isinstance(v, (Match, Bool)):
                return reach & v.d
            if isinstance(v, Conc):
                return reach if v.v else EMPTY
            raise Unsupported("cond name " + e.id)
        if isinstance(e, ast.Compare) and len(e.ops) == 1:
            op, l, r = e.ops[0], e.left, e.comparators[0]
            if isinstance(op, (ast.In, ast.NotIn)):
                if self.is_str(r):                              # X in s
                    x = self.conc(l)
                    d = contains_substr(x) if x != "" else EVERYTHING
                elif self.is_str(l):                            # s in TABLE
                    d = anyof([str(x) for x in self.conc(r)])
                else:
                    raise Unsupported("in " + ast.unparse(e))
                return reach & (d if isinstance(op, ast.In) else ~d)
            if isinstance(op, (ast.IsNot, ast.Is)) and isinstance(r, ast.Constant) and r.value is None:
                v = self.env.get(l.id) if isinstance(l, ast.Name) else None
                if isinstance(v, Match):
                    return reach & (v.d if isinstance(op, ast.IsNot) else ~v.d)
                if isinstance(v, Conc):
                    return reach if ((v.v is not None) == isinstance(op, ast.IsNot)) else EMPTY
                if isinstance(l, ast.Call) and isinstance(l.func, ast.Attribute) and l.func.attr == "fullmatch" and self.is_str(l.args[0]):
                    r_ = self.conc(l.func.value)
                    d = rx(r_.pattern) if r_ is not None else EMPTY
                    return reach & (d if isinstance(op, ast.IsNot) else ~d)
                if isinstance(l, ast.Attribute) and ast.unparse(l).startswith("self.grammar."):
                    val = self.conc(l)
                    return reach if ((val is not None) == isinstance(op, ast.IsNot)) else EMPTY
                if isinstance(l, ast.Call) and isinstance(l.func, ast.Attribute) and isinstance(l.func.value, ast.Name) \
                        and not self.is_str(l.func.value):
                    raise Opaque(ast.unparse(e))          # e.g. d.utcoffset() is None
                raise Unsupported("is None " + ast.unparse(e))
            if isinstance(op, (ast.Eq, ast.NotEq, ast.Gt)):
                # len(s) <op> n
                if isinstance(l, ast.Call) and isinstance(l.func, ast.Name) and l.func.id == "len" and self.is_str(l.args[0]):
                    n = self.conc(r)
                    if isinstance(op, ast.Eq):
                        d = rx("[\\x00-￿]{%d}" % int(n)) if n else SL.lit("")
                    elif isinstance(op, ast.Gt):
                        d = rx("[\\x00-￿]{%d,}" % (int(n) + 1))
                    else:
                        d = ~(rx("[\\x00-￿]{%d}" % int(n)) if n else SL.lit(""))
                    return reach & d
                # s.casefold() == K.casefold()   /  K.casefold() == s.casefold()
                for a, b in ((l, r), (r, l)):
                    if isinstance(a, ast.Call) and isinstance(a.func, ast.Attribute) and a.func.attr == "casefold" and self.is_str(a.func.value):
                        k = self.conc(b)
                        d = anyof([k], ic=True)
                        return reach & (d if isinstance(op, ast.Eq) else ~d)
            raise Unsupported("compare " + ast.unparse(e))
        if isinstance(e, ast.Call):
            f = e.func
            if isinstance(f, ast.Name) and f.id in ("any", "all") and isinstance(e.args[0], ast.GeneratorExp):
                g = e.args[0]
                gen = g.generators[0]
                if self.is_str(gen.iter):                        # over chars of s
                    ok = self.charset(g.elt, gen.target.id)
                    return reach & (contains_any_char(ok) if f.id == "any" else star(ok))
                raise Unsupported("any/all " + ast.unparse(e))
            if isinstance(f, ast.Name) and f.id == "isinstance":
                if self.is_str(e.args[0]):
                    return reach                                  # the value under test is a str
                raise Unsupported("isinstance")
            if isinstance(f, ast.Attribute) and self.is_str(f.value):
                if f.attr in ("startswith", "endswith"):
                    x = self.conc(e.args[0])
                    xs = x if isinstance(x, tuple) else (x,)
                    ds = [rx(re.escape(k) + "[\\x00-￿]*") if f.attr == "startswith" else rx("[\\x00-￿]*" + re.escape(k)) for k in xs]
                    return reach & union(ds)
                if f.attr == "isprintable":
                    return reach & star({c for c in SIGMA if c.isprintable()})
            if isinstance(f, ast.Attribute) and isinstance(f.value, ast.Subscript) and self.is_str(f.value.value):
                idx = self.conc(f.value.slice)
                cs = {c for c in SIGMA if getattr(c, f.attr)()}
                if idx == 0:
                    return reach & rx("[\\x00-￿]").__class__.product(first_in(cs), EVERYTHING, lambda a, b: a)
            # predicate / decoder method calls
            res = self.callfn(e)
            if res is not None:
                return reach & res["T"]
            raise Unsupported("cond call " + ast.unparse(e)[:70])
        raise Unsupported("cond " + ast.dump(e)[:80])

    def charset(self, elt, var):
        """set of representative chars c for which boolean expr `elt` over char var is true"""
        ok = set()
        for c in SIGMA:
            ok.add(c) if self.cheval(elt, var, c) else None
        return ok

    def cheval(self, e, var, c):
        if isinstance(e, ast.BoolOp):
            vals = [self.cheval(v, var, c) for v in e.values]
            return all(vals) if isinstance(e.op, ast.And) else any(vals)
        if isinstance(e, ast.UnaryOp) and isinstance(e.op, ast.Not):
            return not self.cheval(e.operand, var, c)
        if isinstance(e, ast.Compare) and len(e.ops) == 1:
            l, r = e.left, e.comparators[0]
            lv = c if (isinstance(l, ast.Name) and l.id == var) else self.conc(l)
            rv = c if (isinstance(r, ast.Name) and r.id == var) else self.conc(r)
            op = e.ops[0]
            if isinstance(op, ast.In): return lv in rv
            if isinstance(op, ast.NotIn): return lv not in rv
            if isinstance(op, ast.Eq): return lv == rv
            if isinstance(op, ast.NotEq): return lv != rv
        if isinstance(e, ast.Call) and isinstance(e.func, ast.Attribute) and isinstance(e.func.value, ast.Name) and e.func.value.id == var:
            return getattr(c, e.func.attr)()           # str method of a single representative character
        raise Unsupported("char pred " + ast.unparse(e))

    # ---- calls to other analysed functions; returns outcome dict or None
    def callfn(self, e):
        f = e.func
        if not isinstance(f, ast.Attribute):
            return None
        if e.args and isinstance(e.args[0], ast.Subscript) and isinstance(e.args[0].value, ast.Name) \
                and isinstance(self.env.get(e.args[0].value.id), GroupDict):
            gd = self.env[e.args[0].value.id]
            group = self.conc(e.args[0].slice)
            inner = self.callfn(ast.Call(func=f, args=[ast.Name(id="value", ctx=ast.Load())], keywords=[]))
            return group_apply(gd.m.pattern, group, inner)
        recv = ast.unparse(f.value)
        argstr = [a for a in e.args if self.is_str(a)]
        if recv == "self" or (isinstance(f.value, ast.Name) and isinstance(self.env.get(f.value.id), Str) and f.attr.startswith("is_")):
            cls = "Token" if (isinstance(self.env.get("self"), Str) or recv != "self") else self.cls
            if recv != "self":
                cls = "Token"
            if resolve(cls, f.attr)[1] is None:
                return None
            return run(cls, f.attr, self.ctx)
        if recv == "self.decoder":
            if resolve(self.ctx.decoder_cls, f.attr)[1] is None:
                return None
            return run(self.ctx.decoder_cls, f.attr, self.ctx)
        if recv == "super()":
            return run(self.cls, f.attr, self.ctx, after=self.defcls)
        if recv.startswith("super(") and recv.endswith(", self)"):
            return run(self.cls, f.attr, self.ctx, after=recv[6:-7])
        return None

    # ---- statements: returns dict outcome -> DFA ; 'N' = falls through
    def block(self, stmts, reach):
        out = {}
        def add(k, d):
            out[k] = out.get(k, EMPTY) | d
        cur = reach
        for s in stmts:
            o = self.stmt(s, cur)
            for k, d in o.items():
                if k != "N":
                    add(k, d)
            cur = o.get("N", EMPTY)
        add("N", cur)
        return out

    def stmt(self, s, reach):
        if isinstance(s, ast.Expr):
            if isinstance(s.value, ast.Constant):
                return {"N": reach}
            if isinstance(s.value, ast.Call):
                src = ast.unparse(s.value)
                if src.startswith("warnings.warn") or src.startswith("warn("):
                    return {"N": reach}
                if isinstance(s.value.func, ast.Attribute) and s.value.func.attr == "encode" and self.is_str(s.value.func.value):
                    ascii_ok = star({c for c in SIGMA if ord(c) < 128})
                    return {"N": reach & ascii_ok, "E": reach - ascii_ok}     # UnicodeError is a ValueError
                res = self.callfn(s.value)
                if res is not None:
                    return {"N": reach & accepts(res), "E": reach & res["E"]}
            raise Unsupported("expr stmt " + ast.unparse(s)[:60])
        if isinstance(s, ast.Assign):
            t = s.targets[0]
            v = s.value
            if isinstance(t, ast.Name):
                if self.is_str(v):
                    self.env[t.id] = STR
                    return {"N": reach}
                if isinstance(v, ast.Call) and isinstance(v.func, ast.Name) and v.func.id == "Token" and self.is_str(v.args[0]):
                    self.env[t.id] = STR
                    return {"N": reach}
                if isinstance(v, ast.Call) and isinstance(v.func, ast.Attribute) and v.func.attr == "fullmatch":
                    if ast.unparse(v.func.value) == "re":
                        pat = self.fstring(v.args[0])
                        self.env[t.id] = Match(rx(pat), pat)
                    else:
                        r = self.conc(v.func.value)
                        self.env[t.id] = Match(rx(r.pattern) if r is not None else EMPTY)
                    return {"N": reach}
                if isinstance(v, ast.Call) and isinstance(v.func, ast.Attribute) and v.func.attr == "groupdict" \
                        and isinstance(self.env.get(ast.unparse(v.func.value)), Match):
                    self.env[t.id] = GroupDict(self.env[ast.unparse(v.func.value)])
                    return {"N": reach}
                if isinstance(v, ast.Constant) and v.value is None:
                    old = self.env.get(t.id)
                    self.env[t.id] = Match((old.d - reach) if isinstance(old, Match) else EMPTY)
                    return {"N": reach}
                m = self.libmodel(v)
                if m is not None:
                    old = self.env.get(t.id)
                    base = (old.d - reach) if isinstance(old, Match) else EMPTY
                    self.env[t.id] = Match(base | (reach & m))
                    return {"N": reach & m, "E": reach - m}
                res = self.callfn(v) if isinstance(v, ast.Call) else None
                if res is not None:
                    # value-returning callee: if it returns the input unchanged, alias
                    if not (res["ID"].empty()):
                        self.env[t.id] = STR
                    return {"N": reach & accepts(res), "E": reach & res["E"]}
                try:
                    self.env[t.id] = Conc(self.conc(v))
                    return {"N": reach}
                except Unsupported:
                    self.env[t.id] = None          # opaque value not depending on classification
                    return {"N": reach}
            if isinstance(t, ast.Tuple):
                for el in t.elts:
                    if isinstance(el, ast.Name):
                        self.env[el.id] = None
                return {"N": reach}
            raise Unsupported("assign " + ast.unparse(s)[:60])
        if isinstance(s, ast.Return):
            v = s.value
            if v is None:
                return {"F": reach}
            if self.is_str(v):
                return {"ID": reach}
            if isinstance(v, ast.Constant):
                return {"T" if v.value else "F": reach} if isinstance(v.value, (bool, type(None))) else {"V": reach}
            if isinstance(v, ast.Call):
                res = self.callfn(v)
                if res is not None:
                    return {k: reach & res[k] for k in ("T", "F", "ID", "V", "E")}
            # library constructors at the boundary: acceptance language from the model table
            m = self.libmodel(v)
            if m is not None:
                return {"V": reach & m, "E": reach - m}
            if self.boolish(v):
                t = self.cond(v, reach)
                return {"T": t, "F": reach - t}
            return {"V": reach}                                # some value, not classified further (e.g. q + s + q)
        if isinstance(s, ast.Raise):
            return {"E": reach}
        if isinstance(s, ast.If):
            try:
                t = self.cond(s.test, reach)
                f = reach - t
            except Opaque:
                t = f = reach
            o1 = self.block(s.body, t)
            o2 = self.block(s.orelse, f) if s.orelse else {"N": f}
            return merge(o1, o2)
        if isinstance(s, ast.For):
            if self.is_str(s.iter):                               # for c in value: <per-char test>
                return self.charloop(s, reach)
            items = list(self.conc(s.iter))
            out = {}
            cur = reach
            for it in items:
                self.bind(s.target, it)
                o = self.block(s.body, cur)
                cur = o.pop("N", EMPTY) | o.pop("C", EMPTY)
                out = merge(out, o)
            if s.orelse:
                o = self.block(s.orelse, cur)
                cur = o.pop("N", EMPTY)
                out = merge(out, o)
            out = merge(out, {"N": cur | out.pop("B", EMPTY)})
            return out
        if isinstance(s, ast.Try):
            o = self.block(s.body, reach)
            caught = o.pop("E", EMPTY)
            out = o
            handled = False
            for h in s.handlers:
                names = [h.type.id] if isinstance(h.type, ast.Name) else [x.id for x in h.type.elts]
                if any(n in ("ValueError", "UnicodeError", "Exception") for n in names) and not handled:
                    ho = self.block(h.body, caught)
                    out = merge(out, ho)
                    handled = True
            if not handled:
                out = merge(out, {"E": caught})
            return out
        if isinstance(s, ast.Pass):
            return {"N": reach}
        if isinstance(s, ast.Continue):
            return {"C": reach}
        if isinstance(s, ast.Break):
            return {"B": reach}
        raise Unsupported("stmt " + ast.dump(s)[:60])

    def boolish(self, v):
        if isinstance(v, (ast.BoolOp, ast.Compare)) or (isinstance(v, ast.UnaryOp) and isinstance(v.op, ast.Not)):
            return True
        if isinstance(v, ast.Call):
            f = v.func
            if isinstance(f, ast.Name) and f.id in ("any", "all", "isinstance"):
                return True
            if isinstance(f, ast.Attribute) and (f.attr.startswith("is") or f.attr in ("startswith", "endswith")):
                return True
        return False

    def bind(self, target, value):
        if isinstance(target, ast.Name):
            self.env[target.id] = Conc(value)
        else:
            for el, v in zip(target.elts, value):
                self.bind(el, v)

    def charloop(self, s, reach):
        # shape:  for c in value: if <char-pred>: return False   [else: return True]
        var = s.target.id
        body = s.body
        if len(body) == 1 and isinstance(body[0], ast.If) and len(body[0].body) == 1 and isinstance(body[0].body[0], ast.Return):
            bad = self.charset(body[0].test, var)
            ret = body[0].body[0].value
            k = "T" if (isinstance(ret, ast.Constant) and ret.value) else "F"
            hit = reach & contains_any_char(bad)
            rest = reach - hit
            out = {k: hit}
            if s.orelse:
                o = self.block(s.orelse, rest)
                return merge(out, o)
            return merge(out, {"N": rest})
        raise Unsupported("char loop shape")

    def fstring(self, e):
        """concrete pattern from implicit-concatenated / f-strings with grammar attributes"""
        if isinstance(e, ast.Constant):
            return e.value
        if isinstance(e, ast.JoinedStr):
            return "".join(v.value if isinstance(v, ast.Constant) else str(self.conc(v.value)) for v in e.values)
        raise Unsupported("pattern")

    def libmodel(self, v):
        src = ast.unparse(v)
        if src.startswith("int(") and "base=10" in src:
            return SL.INT10
        if src.startswith("self.real_cls("):
            return SL.FLOAT
        if src.startswith("int(") :
            return EVERYTHING        # digits already constrained by the regex; radix validity not modelled
        if "for_try_except(ValueError, datetime.strptime" in src:
            call = v
            while not (isinstance(call, ast.Call) and isinstance(call.func, ast.Name) and call.func.id == "for_try_except"):
                call = call.func.value
            fmts = self.conc(call.args[3])
            return union(SL.strptime_dfa(f) for f in fmts)
        return None


def group_apply(pattern, group, inner):
    """outcomes of applying a decoder to the *leading* named group of `pattern` (suffix = rest of the pattern)"""
    import re._parser as rp, re._constants as rc
    seq = list(rp.parse(pattern))
    op, av = seq[0]
    if op is not rc.SUBPATTERN or rp.parse(pattern).state.groupdict.get(group) != av[0]:
        raise Unsupported("group is not the leading sub-pattern")
    nfa = SL.NFA(); s = nfa.new(); end = SL.build(nfa, av[3], s, False)
    Lg = DFA.from_nfa(s, end, nfa.eps, nfa.moves)
    nfa = SL.NFA(); s = nfa.new(); end = SL.build(nfa, seq[1:], s, False)
    Lsuffix = DFA.from_nfa(s, end, nfa.eps, nfa.moves)
    ok = concat(Lg & accepts(inner), Lsuffix)
    whole = concat(Lg, Lsuffix)
    return {"T": EMPTY, "F": EMPTY, "ID": EMPTY, "V": ok, "E": whole - ok}


def accepts(res):
    return res["T"] | res["F"] | res["ID"] | res["V"]


def first_in(cs):
    n = SL.NFA()
    a, b = n.new(), n.new()
    n.m(a, cs, b)
    n.m(b, SIGMA, b)
    return DFA.from_nfa(a, b, n.eps, n.moves)


def merge(a, b):
    out = dict(a)
    for k, d in b.items():
        out[k] = out.get(k, EMPTY) | d
    return out


if __name__ == "__main__":
    def show(label, d, k=4):
        w = d.witnesses(k)
        print(f"   {label:55s} {'EMPTY' if not w else w}")

    cfgs = [("PVLEncoder", G.PVLGrammar(), "PVLDecoder"), ("ISISEncoder", G.ISISGrammar(), "PVLDecoder"),
            ("ODLEncoder", G.ODLGrammar(), "ODLDecoder"), ("PDSLabelEncoder", G.PDSGrammar(), "PDSLabelDecoder")]
    for enc, g, dec in cfgs:
        MEMO.clear()
        ctx = Ctx(enc, g, dec, enc)
        print("==", enc, type(g).__name__, dec)
        try:
            es = run(enc, "encode_string", ctx)
            bare = es["ID"] & star(SL.allowed_chars(g))
            show("bare strings (encode_string returns its input)", bare, 5)
            # reader classes from the decoder's own methods
            rd = {}
            for m in ("decode_quoted_string", "decode_non_decimal", "decode_decimal", "decode_datetime", "decode_unquoted_string"):
                r = run(dec, m, ctx)
                rd[m] = accepts(r)
                show(f"bare ∩ accepts({dec}.{m})", bare & rd[m]) if m != "decode_unquoted_string" else show(
                    f"bare − accepts({dec}.decode_unquoted_string)", bare - rd[m])
            kw = anyof([g.none_keyword, g.true_keyword, g.false_keyword], ic=True)
            show("bare ∩ keyword(none/true/false)", bare & kw)
            tk = run("Token", "is_unquoted_string", ctx)
            show("Token.is_unquoted_string − decoder unquoted (G2)", (tk["T"] - rd["decode_unquoted_string"]))
            show("decoder unquoted − Token.is_unquoted_string − other classes (G2)",
                 rd["decode_unquoted_string"] - tk["T"] - rd["decode_decimal"] - rd["decode_datetime"] - rd["decode_non_decimal"] - rd["decode_quoted_string"])
        except Unsupported as u:
            print("   UNSUPPORTED:", u)
