"""Scratch: M2 paired-write rule on OrderedMultiDict (path-insensitive per-method summary + path check
for early returns).  LIST = writes to self.__items ; DICT = writes to dict storage."""
import ast, sys
src = open(sys.argv[1] if len(sys.argv) > 1 else '/repo/pvl/collections.py').read()
t = ast.parse(src)
omd = [n for n in t.body if isinstance(n, ast.ClassDef) and n.name == 'OrderedMultiDict'][0]
MUT = {'append','extend','insert','pop','remove','clear','sort','reverse'}
DICT_FUNCS = {'dict_setitem','dict_delitem','dict_clear'}
DELEG = {'append','pop','insert','extend','__delitem__','__setitem__','popall','clear'}

def effects(stmts, aliases):
    """returns list of paths; each path = (set of effects, terminated?)"""
    paths = [(frozenset(), False)]
    for s in stmts:
        new = []
        for eff, done in paths:
            if done:
                new.append((eff, done)); continue
            for e2, d2 in stmt(s, aliases):
                new.append((eff | e2, d2))
        paths = list(set(new))
    return paths

def expr_effects(node, aliases):
    eff = set()
    for n in ast.walk(node):
        if isinstance(n, ast.Call):
            f = n.func
            if isinstance(f, ast.Name) and f.id in DICT_FUNCS: eff.add('DICT')
            if isinstance(f, ast.Attribute) and f.attr in MUT:
                v = f.value
                if isinstance(v, ast.Attribute) and v.attr == '__items': eff.add('LIST')
                if isinstance(v, ast.Call) and isinstance(v.func, ast.Name) and v.func.id == 'dict_getitem': eff.add('DICT')
                if isinstance(v, ast.Name) and v.id in aliases: eff.add('DICT')
            if isinstance(f, ast.Attribute) and isinstance(f.value, ast.Name) and f.value.id == 'self' and f.attr in DELEG:
                eff.add('BOTH:' + f.attr)
    return eff

def stmt(s, aliases):
    if isinstance(s, (ast.Assign, ast.AugAssign)):
        tg = s.targets if isinstance(s, ast.Assign) else [s.target]
        eff = set(expr_effects(s.value, aliases))
        for x in tg:
            for y in ast.walk(x):
                if isinstance(y, ast.Attribute) and y.attr == '__items' and isinstance(y.ctx, ast.Store): eff.add('LIST')
                if isinstance(y, ast.Subscript) and isinstance(y.value, ast.Attribute) and y.value.attr == '__items' and isinstance(y.ctx, ast.Store): eff.add('LIST')
            if isinstance(x, ast.Name) and isinstance(s.value, ast.Call) and isinstance(s.value.func, ast.Name) and s.value.func.id == 'dict_getitem':
                aliases.add(x.id)
            if isinstance(x, ast.Tuple):   # key, _ = item = self.__items.pop()
                pass
        return [(frozenset(eff), False)]
    if isinstance(s, ast.Delete):
        eff = set()
        for x in s.targets:
            if isinstance(x, ast.Subscript) and isinstance(x.value, ast.Name) and x.value.id == 'self': eff.add('BOTH:__delitem__')
        return [(frozenset(eff), False)]
    if isinstance(s, ast.Expr):
        return [(frozenset(expr_effects(s.value, aliases)), False)]
    if isinstance(s, ast.Return):
        return [(frozenset(expr_effects(s.value, aliases)) if s.value else frozenset(), True)]
    if isinstance(s, ast.Raise):
        return [(frozenset({'RAISE'}), True)]
    if isinstance(s, ast.If):
        c = frozenset(expr_effects(s.test, aliases))
        out = [(c | e, d) for e, d in effects(s.body, aliases)]
        out += [(c | e, d) for e, d in (effects(s.orelse, aliases) if s.orelse else [(frozenset(), False)])]
        return out
    if isinstance(s, (ast.For, ast.While)):
        body = effects(s.body, aliases)
        return [(frozenset(), False)] + [(e, False) for e, d in body]      # 0 or n iterations (break ~ fallthrough)
    if isinstance(s, ast.Try):
        out = effects(s.body, aliases)
        for h in s.handlers:
            out += [(e, d) for e, d in effects(h.body, aliases)]
            # handler reached after partial body: over-approx by union with body paths
            out += [(e1 | e2, d2) for e1, _ in effects(s.body, aliases) for e2, d2 in effects(h.body, aliases)]
        return out
    if isinstance(s, (ast.Break, ast.Continue, ast.Pass)):
        return [(frozenset(), False)]
    return [(frozenset(expr_effects(s, aliases)), False)]

bad = 0
for fn in [n for n in omd.body if isinstance(n, ast.FunctionDef)]:
    if fn.name == '__init__':
        continue
    verdicts = set()
    for eff, done in effects(fn.body, set()):
        if 'RAISE' in eff: continue
        has_list = 'LIST' in eff; has_dict = 'DICT' in eff
        if has_list != has_dict and not any(e.startswith('BOTH:') for e in eff):
            verdicts.add(('UNPAIRED', tuple(sorted(eff))))
        elif has_list or has_dict or any(e.startswith('BOTH:') for e in eff):
            verdicts.add(('paired', tuple(sorted(eff))))
    if verdicts:
        for v in sorted(verdicts):
            if v[0] == 'UNPAIRED': bad += 1
            print(f'{fn.name:14s} {v[0]:9s} {v[1]}')
print('UNPAIRED paths:', bad)
