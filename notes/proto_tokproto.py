"""Throwaway prototype v2: token-stream protocol abstract interpreter over pvl/parser.py.
Calibration of DESIGN.md section 2.5.  Not framework code.
"""
import ast
import sys
from dataclasses import dataclass, replace
from collections import defaultdict

SRC = sys.argv[1] if len(sys.argv) > 1 else "/repo/pvl/parser.py"
INF = 99
CAP = 3

PARENTS = {
    "LexerError": "ValueError", "UnicodeError": "ValueError", "ValueError": "Exception",
    "ParseError": "Exception", "QuantityError": "Exception", "TypeError": "Exception",
    "StopIteration": "Exception", "KeyError": "Exception", "IndexError": "Exception",
    "UnboundLocalError": "Exception", "Exception": "BaseException", "BaseException": None,
}


def issub(e, base):
    while e is not None:
        if e == base:
            return True
        e = PARENTS.get(e)
    return False


TRACK = ("TRUE", "FALSE", "NONE", "TOKEN")


@dataclass(frozen=True)
class St:
    stream: str = "FRESH"     # PB FRESH EXHAUSTED DEAD
    lo: int = 0               # consumed since function entry (lower bound)
    hi: int = 0               # upper bound (INF = unknown)
    loop_lo: int = 0          # lower bound since innermost loop head
    skipped: bool = False
    after_end: bool = False
    env: tuple = ()
    marks: tuple = ()         # stack of (lo, hi) since enclosing try entries

    def get(self, k):
        for a, b in self.env:
            if a == k:
                return b
        return None

    def set(self, k, v):
        env = tuple((a, b) for a, b in self.env if a != k)
        if v is not None:
            env = tuple(sorted(env + ((k, v),)))
        return replace(self, env=env)

    def add(self, dlo, dhi):
        def a(lo, hi):
            nlo = max(-3, min(CAP, lo + dlo))
            nhi = INF if (hi == INF or dhi == INF or hi + dhi > CAP) else max(-3, hi + dhi)
            return nlo, nhi
        lo, hi = a(self.lo, self.hi)
        return replace(self, lo=lo, hi=hi, loop_lo=max(-3, min(CAP, self.loop_lo + dlo)),
                       marks=tuple(a(l, h) for (l, h) in self.marks))

    def push(self):
        return replace(self, marks=self.marks + ((0, 0),))

    def pop(self):
        return replace(self, marks=self.marks[:-1])


class Out:
    def __init__(self):
        self.normal = set()
        self.returns = set()   # (retabs, St)
        self.raises = set()    # (exc, St, origin)
        self.breaks = set()
        self.continues = set()

    def absorb(self, o, normal=False):
        if normal:
            self.normal |= o.normal
        self.returns |= o.returns
        self.raises |= o.raises
        self.breaks |= o.breaks
        self.continues |= o.continues


tree = ast.parse(open(SRC).read())
CLASSES = {n.name: n for n in tree.body if isinstance(n, ast.ClassDef)}
BASES = {c: (n.bases[0].id if n.bases and isinstance(n.bases[0], ast.Name) and n.bases[0].id in CLASSES else None)
         for c, n in CLASSES.items()}
METHODS = {c: {f.name: f for f in n.body if isinstance(f, ast.FunctionDef)} for c, n in CLASSES.items()}


def resolve(cls, name, after=None):
    c = BASES[after] if after is not None else cls
    while c is not None:
        if name in METHODS.get(c, {}):
            return c, METHODS[c][name]
        c = BASES[c]
    return None, None


def is_token_fn(fn):
    return "tokens" in [a.arg for a in fn.args.args]


def is_skip_helper(fn):
    """A function whose token loop discards tokens for which .is_WSC() holds."""
    for n in ast.walk(fn):
        if isinstance(n, ast.For) and isinstance(n.iter, ast.Name) and n.iter.id == "tokens":
            for m in ast.walk(n):
                if isinstance(m, ast.Attribute) and m.attr == "is_WSC":
                    return True
    return False


FINDINGS = defaultdict(set)
STATS = defaultdict(int)


def lib_raises(src, fam):
    r = set()
    if "decode_simple_value" in src:
        r.add("ValueError")
        if fam in ("ODL", "Omni"):
            r.add("TypeError")
    if "aggregation_cls" in src:
        r.add("ValueError")
    if "decode_quantity" in src:
        r.add("QuantityError")
    if src.startswith("frozenset(") or src.startswith("set("):
        r.add("TypeError")
    return r


class Interp:
    def __init__(self, cls, fam):
        self.cls, self.fam = cls, fam
        self.summ = {}
        self.inprogress = set()
        self.cur = []
        self.tries = {}

    def summary(self, defcls, fn, stream, skipped, argabs):
        key = (defcls, fn.name, stream, skipped, argabs)
        if key in self.inprogress or key in self.done:
            return self.summ.get(key, frozenset())
        self.inprogress.add(key)
        self.cur.append((defcls, fn.name))
        st0 = St(stream=stream, skipped=skipped)
        params = [a.arg for a in fn.args.args if a.arg not in ("self", "tokens")]
        for pname, v in zip(params, argabs):
            if v in TRACK:
                st0 = st0.set(pname, v)
        out = self.block(fn.body, {st0})
        ex = set()
        for s in list(out.normal) + [x for (_, x) in out.returns]:
            self.t1_check(s)
        for s in out.normal:
            ex.add(("return", "NONE", s.lo, s.hi, s.stream, s.skipped, s.after_end, None, "falloff"))
        for (r, s) in out.returns:
            ex.add(("return", r, s.lo, s.hi, s.stream, s.skipped, s.after_end, None, "return"))
        for (e, s, origin) in out.raises:
            ex.add(("raise", None, s.lo, s.hi, s.stream, s.skipped or bool(s.get("$degraded")), s.after_end, e, origin))
        self.cur.pop()
        self.inprogress.discard(key)
        ex = frozenset(ex)
        if fn.name in SKIP_HELPERS:
            ex = frozenset((k, r, lo, hi, s, True, ae, e, o) for (k, r, lo, hi, s, sk, ae, e, o) in ex)
        if self.summ.get(key) != ex:
            self.summ[key] = ex
            self.changed = True
        self.done.add(key)
        return ex

    def run(self, entry):
        for _ in range(30):
            self.changed = False
            self.done = set()
            FINDINGS.clear()
            defcls, fn = resolve(self.cls, entry)
            res = self.summary(defcls, fn, "FRESH", False, ())
            if not self.changed:
                return res
        raise RuntimeError("no fixpoint")

    def where(self, node):
        return f"{self.cur[-1][0]}.{self.cur[-1][1]}:{getattr(node, 'lineno', '?')}"

    # ------------------------------------------------------------ statements
    def block(self, stmts, states):
        out = Out()
        cur = set(states)
        for s in stmts:
            if not cur:
                break
            o = self.stmt(s, cur)
            out.absorb(o)
            cur = o.normal
        out.normal = cur
        return out

    def assign(self, target, val, st):
        if isinstance(target, ast.Name):
            return st.set(target.id, val if (val in TRACK or (isinstance(val, str) and val.startswith("M:"))) else None)
        if isinstance(target, ast.Tuple):
            vals = val if isinstance(val, tuple) and len(val) == len(target.elts) else [None] * len(target.elts)
            for el, v in zip(target.elts, vals):
                st = self.assign(el, v, st)
        return st

    def stmt(self, s, states):
        out = Out()
        if isinstance(s, ast.Expr):
            if isinstance(s.value, ast.Constant):
                out.normal = set(states)
                return out
            for st in states:
                for (val, st2, exc, org) in self.expr(s.value, st):
                    if exc:
                        out.raises.add((exc, st2, org))
                    else:
                        out.normal.add(st2)
            return out
        if isinstance(s, (ast.Assign, ast.AugAssign)):
            target = s.targets[0] if isinstance(s, ast.Assign) else s.target
            for st in states:
                for (val, st2, exc, org) in self.expr(s.value, st):
                    if exc:
                        out.raises.add((exc, st2, org))
                    else:
                        out.normal.add(self.assign(target, val, st2))
            return out
        if isinstance(s, ast.Return):
            for st in states:
                if s.value is None:
                    out.returns.add(("NONE", st))
                    continue
                for (val, st2, exc, org) in self.expr(s.value, st):
                    if exc:
                        out.raises.add((exc, st2, org))
                    else:
                        out.returns.add((val if (val in TRACK or isinstance(val, tuple)) else "OTHER", st2))
            return out
        if isinstance(s, ast.Raise):
            for st in states:
                if s.exc is None:
                    out.raises.add((st.get("$handling") or "Exception", st, st.get("$origin") or self.where(s)))
                elif isinstance(s.exc, ast.Name) and st.get("$exc:" + s.exc.id):
                    out.raises.add((st.get("$exc:" + s.exc.id), st, self.where(s) + f" `raise {s.exc.id}`"))
                else:
                    name = s.exc.func.id if isinstance(s.exc, ast.Call) else s.exc.id
                    out.raises.add((name, st, self.where(s) + f" `raise {name}`"))
            return out
        if isinstance(s, ast.If):
            ts, fs = set(), set()
            for st in states:
                for (val, st2, exc, org) in self.expr(s.test, st):
                    if exc:
                        out.raises.add((exc, st2, org))
                    elif val == "TRUE":
                        ts.add(st2)
                    elif val in ("FALSE", "NONE"):
                        fs.add(st2)
                    else:
                        ts.add(st2)
                        fs.add(st2)
            o1 = self.block(s.body, ts)
            out.absorb(o1, normal=True)
            if s.orelse:
                out.absorb(self.block(s.orelse, fs), normal=True)
            else:
                out.normal |= fs
            return out
        if isinstance(s, ast.While):
            return self.loop_while(s, states)
        if isinstance(s, ast.For):
            return self.loop_for(s, states)
        if isinstance(s, ast.Try):
            return self.try_(s, states)
        if isinstance(s, ast.Break):
            out.breaks = set(states)
            return out
        if isinstance(s, ast.Continue):
            out.continues = set(states)
            return out
        if isinstance(s, ast.Pass):
            out.normal = set(states)
            return out
        raise NotImplementedError(ast.dump(s)[:80])

    def truth(self, test, st):
        """TRUE / FALSE / None(unknown) for loop conditions on tracked names."""
        if isinstance(test, ast.Constant):
            return "TRUE" if test.value else "FALSE"
        if isinstance(test, ast.Name):
            v = st.get(test.id)
            return {"TRUE": "TRUE", "FALSE": "FALSE", "NONE": "FALSE"}.get(v)
        return None

    def loop_while(self, s, states):
        out = Out()
        exits, seen = set(), set()
        work = {replace(st, loop_lo=0) for st in states}
        while work - seen:
            head = work - seen
            seen |= head
            ts = set()
            for st in head:
                t = self.truth(s.test, st)
                if t != "FALSE":
                    ts.add(st)
                if t != "TRUE":
                    exits.add(st)
            o = self.block(s.body, ts)
            out.returns |= o.returns
            out.raises |= o.raises
            exits |= o.breaks
            back = o.normal | o.continues
            for st in back:
                if self.truth(s.test, st) != "FALSE" and st.loop_lo < 1:
                    FINDINGS["T4"].add(f"{self.where(s)} loop can iterate without consuming a token "
                                       f"(stream={st.stream}, keep_parsing={st.get('keep_parsing')})")
            work = {replace(st, loop_lo=0) for st in back}
        out.normal = exits
        return out

    def loop_for(self, s, states):
        out = Out()
        it = s.iter
        if isinstance(it, ast.Name) and it.id == "tokens":
            exits, seen, work = set(), set(), set(states)
            while work - seen:
                head = work - seen
                seen |= head
                body_in = set()
                for st in head:
                    for (val, st2, exc, org) in self.ev_next(st, s, forloop=True):
                        if exc == "$EXHAUST":
                            exits.add(st2)
                        elif exc:
                            out.raises.add((exc, st2, org))
                        else:
                            body_in.add(self.assign(s.target, "TOKEN", st2))
                o = self.block(s.body, body_in)
                out.returns |= o.returns
                out.raises |= o.raises
                exits |= o.breaks
                work = o.normal | o.continues
            out.normal = exits
            return out
        if isinstance(it, ast.Tuple) and all(isinstance(e, ast.Attribute) for e in it.elts):
            cur, broke = set(states), set()
            for e in it.elts:
                o = self.block(s.body, {st.set(s.target.id, "M:" + e.attr) for st in cur})
                out.returns |= o.returns
                out.raises |= o.raises
                broke |= o.breaks
                cur = o.normal | o.continues
            cur = {st.set(s.target.id, None) for st in cur}
            if s.orelse:
                o = self.block(s.orelse, cur)
                out.absorb(o)
                cur = o.normal
            out.normal = cur | {st.set(s.target.id, None) for st in broke}
            return out
        exits, seen, work = set(states), set(), set(states)
        while work - seen:
            head = work - seen
            seen |= head
            o = self.block(s.body, head)
            out.returns |= o.returns
            out.raises |= o.raises
            exits |= o.breaks | o.normal | o.continues
            work = o.normal | o.continues
        out.normal = exits
        return out

    def t1_check(self, st):
        """Called at the first token-consuming event inside (or at the exit of) a handler that caught a
        plain ValueError: everything consumed in the try body must have been sent back by now."""
        flag = st.get("$t1")
        if not flag:
            return st
        if flag.startswith("S|"):
            _, lo, hi, tid, hname, origin = flag.split("|", 5)
            lo, hi = int(lo), int(hi)
        else:
            idx, tid, hname, origin = flag.split("|", 3)
            lo, hi = st.marks[int(idx)]
        if hi != 0:
            FINDINGS["T1"].add(f"{tid} `except {hname}` lets parsing continue after a plain ValueError "
                               f"raised at {origin} although {lo}..{'many' if hi == INF else hi} "
                               f"token(s) consumed in the try body were not sent back")
        return st.set("$t1", None)

    def htypes(self, h):
        if h.type is None:
            return ["BaseException"]
        if isinstance(h.type, ast.Tuple):
            return [e.id for e in h.type.elts]
        return [h.type.id]

    def try_(self, s, states):
        out = Out()
        tid = self.where(s)
        info = self.tries.setdefault(tid, {"handlers": [ast.unparse(h.type) if h.type else "bare" for h in s.handlers],
                                           "lexerr": False, "ve": False})
        body = self.block(s.body, {st.push() for st in states})
        out.returns |= {(r, st.pop()) for (r, st) in body.returns}
        out.breaks |= {st.pop() for st in body.breaks}
        out.continues |= {st.pop() for st in body.continues}
        normal = {st.pop() for st in body.normal}
        if s.orelse:
            o = self.block(s.orelse, normal)
            out.absorb(o)
            normal = o.normal
        for (e, st, origin) in body.raises:
            if e == "LexerError":
                info["lexerr"] = True
            handled = False
            for h in s.handlers:
                if not any(issub(e, t) for t in self.htypes(h)):
                    continue
                handled = True
                hname = ast.unparse(h.type) if h.type else "bare"
                passthrough = (len(h.body) == 1 and isinstance(h.body[0], ast.Raise) and h.body[0].exc is None)
                if e == "LexerError" and not passthrough:
                    FINDINGS["T2"].add(f"{tid} `except {hname}` can catch a LexerError (raised at {origin}) "
                                       f"and has no preceding `except LexerError: raise`")
                st2 = st.set("$handling", e).set("$origin", origin)
                if e not in ("ValueError", "StopIteration", "ParseError", "Exception"):
                    st2 = st2.set("$degraded", "TRUE")
                if h.name:
                    st2 = st2.set("$exc:" + h.name, e)
                if e == "ValueError":
                    info["ve"] = True
                    st2 = st2.set("$t1", f"{len(st2.marks) - 1}|{tid}|{hname}|{origin}")
                ho = self.block(h.body, {st2})
                def clean(x):
                    flag = x.get("$t1")
                    if flag and not flag.startswith("S|"):
                        idx, rest = flag.split("|", 1)
                        lo_, hi_ = x.marks[int(idx)]
                        x = x.set("$t1", f"S|{lo_}|{hi_}|{rest}")
                    return x.set("$handling", None).set("$origin", None).pop()
                out.normal |= {clean(x) for x in ho.normal}
                out.returns |= {(r, clean(x)) for (r, x) in ho.returns}
                out.breaks |= {clean(x) for x in ho.breaks}
                out.continues |= {clean(x) for x in ho.continues}
                out.raises |= {(e2, clean(x), o2) for (e2, x, o2) in ho.raises}
                break
            if not handled:
                out.raises.add((e, st.pop(), origin))
        out.normal |= normal
        return out

    # ------------------------------------------------------------ expressions
    def expr(self, e, st):
        """-> list of (absval, St, exc, origin)"""
        if isinstance(e, ast.Constant):
            v = {True: "TRUE", False: "FALSE", None: "NONE"}.get(e.value, "OTHER") if isinstance(e.value, (bool, type(None))) else "OTHER"
            return [(v, st, None, None)]
        if isinstance(e, ast.Name):
            return [(st.get(e.id) or "OTHER", st, None, None)]
        if isinstance(e, ast.Tuple):
            res = [((), st, None, None)]
            for el in e.elts:
                new = []
                for (vals, s1, exc, org) in res:
                    if exc:
                        new.append((vals, s1, exc, org))
                        continue
                    for (v, s2, exc2, org2) in self.expr(el, s1):
                        new.append((vals + (v,), s2, exc2, org2))
                res = new
            return res
        if isinstance(e, ast.Starred):
            return self.expr(e.value, st)
        if isinstance(e, ast.UnaryOp) and isinstance(e.op, ast.Not):
            return [({"TRUE": "FALSE", "FALSE": "TRUE", "NONE": "TRUE"}.get(v, "OTHER") if not exc else v, s1, exc, org)
                    for (v, s1, exc, org) in self.expr(e.operand, st)]
        if isinstance(e, ast.Compare) and len(e.ops) == 1:
            res = []
            for (a, s1, exc, org) in self.expr(e.left, st):
                if exc:
                    res.append((a, s1, exc, org))
                    continue
                for (b, s2, exc2, org2) in self.expr(e.comparators[0], s1):
                    if exc2:
                        res.append((b, s2, exc2, org2))
                        continue
                    v = "OTHER"
                    op = e.ops[0]
                    if isinstance(op, (ast.Is, ast.IsNot)) and "NONE" in (a, b) and a in TRACK and b in TRACK:
                        same = (a == b)
                        v = "TRUE" if same == isinstance(op, ast.Is) else "FALSE"
                    if isinstance(op, (ast.Eq, ast.NotEq)) and {a, b} == {"TOKEN", "NONE"}:
                        v = "FALSE" if isinstance(op, ast.Eq) else "TRUE"   # a Token never equals None
                    res.append((v, s2, None, None))
            return res
        if isinstance(e, ast.BoolOp):
            res = [("OTHER", st, None, None)]
            for el in e.values:
                new = []
                for (v, s1, exc, org) in res:
                    if exc:
                        new.append((v, s1, exc, org))
                        continue
                    new.append(("OTHER", s1, None, None))            # short circuit here
                    for (v2, s2, exc2, org2) in self.expr(el, s1):
                        new.append(("OTHER", s2, exc2, org2))
                res = new
            return res
        if isinstance(e, ast.Call):
            return self.call(e, st)
        res = [("OTHER", st, None, None)]
        for child in ast.iter_child_nodes(e):
            if isinstance(child, ast.expr):
                new = []
                for (v, s1, exc, org) in res:
                    if exc:
                        new.append((v, s1, exc, org))
                        continue
                    for (v2, s2, exc2, org2) in self.expr(child, s1):
                        new.append(("OTHER", s2, exc2, org2))
                res = new
        return res

    def ev_next(self, st, node, forloop=False):
        STATS["next_events"] += 1
        st = self.t1_check(st)
        w = self.where(node)
        in_skip = self.cur[-1][1] in SKIP_HELPERS
        res = []
        end = "$EXHAUST" if forloop else "StopIteration"
        if st.after_end and not st.get("$degraded"):
            FINDINGS["T7"].add(f"{w} token requested after the END statement was recognised")
        if st.stream in ("PB", "FRESH"):
            if st.stream == "FRESH" and not st.skipped and not in_skip and not st.get("$degraded"):
                FINDINGS["T6"].add(f"{w} significant token read with no white-space/comment skip since the previous one")
            res.append(("TOKEN", replace(st.add(1, 1), stream="FRESH", skipped=False), None, None))
        if st.stream == "FRESH":
            res.append((None, replace(st, stream="EXHAUSTED"), end, w + " `next(tokens)`"))
            res.append((None, replace(st, stream="DEAD"), "LexerError", w + " lexer"))
        if st.stream in ("EXHAUSTED", "DEAD"):
            res.append((None, st, end, w + " `next(tokens)`"))
        return res

    def call(self, e, st):
        f = e.func
        if isinstance(f, ast.Name) and f.id == "next" and e.args and isinstance(e.args[0], ast.Name) and e.args[0].id == "tokens":
            return self.ev_next(st, e)
        if isinstance(f, ast.Attribute) and isinstance(f.value, ast.Name) and f.value.id == "tokens":
            w = self.where(e)
            if f.attr == "send":
                if st.stream == "PB":
                    FINDINGS["T5"].add(f"{w} send while a token is already pushed back")
                if st.stream in ("EXHAUSTED", "DEAD"):
                    return [(None, st, "StopIteration", w + " send on finished generator")]
                return [("NONE", replace(st.add(-1, -1), stream="PB"), None, None)]
            if f.attr == "throw":
                if st.stream in ("PB", "FRESH"):
                    return [(None, replace(st, stream="DEAD"), "LexerError", w + " tokens.throw")]
                return [(None, st, "ValueError", w + " tokens.throw on a finished generator")]
        # arguments (and receiver expression) first
        argexprs = list(e.args) + [k.value for k in e.keywords]
        recv_is_simple = isinstance(f, ast.Attribute) and isinstance(f.value, ast.Name) and f.value.id in ("self", "tokens")
        pre = [f.value] if isinstance(f, ast.Attribute) and not recv_is_simple and not (
            isinstance(f.value, ast.Call) and isinstance(f.value.func, ast.Name) and f.value.func.id == "super") else []
        res = [((), st, None, None)]
        for a in pre + argexprs:
            new = []
            for (vals, s1, exc, org) in res:
                if exc:
                    new.append((vals, s1, exc, org))
                    continue
                for (v, s2, exc2, org2) in self.expr(a, s1):
                    new.append((vals + (v,), s2, exc2, org2))
            res = new
        out = []
        for (vals, s1, exc, org) in res:
            if exc:
                out.append((None, s1, exc, org))
            else:
                out.extend(self.apply_call(e, f, vals[len(pre):], s1))
        return out

    def apply_call(self, e, f, argvals, st):
        src = ast.unparse(e)
        target = None
        if isinstance(f, ast.Attribute) and isinstance(f.value, ast.Name) and f.value.id == "self":
            target = resolve(self.cls, f.attr)
        elif isinstance(f, ast.Attribute) and isinstance(f.value, ast.Call) and isinstance(f.value.func, ast.Name) and f.value.func.id == "super":
            target = resolve(self.cls, f.attr, after=self.cur[-1][0])
        elif isinstance(f, ast.Name) and (st.get(f.id) or "").startswith("M:"):
            target = resolve(self.cls, st.get(f.id)[2:])
        if target and target[1] is not None and is_token_fn(target[1]):
            STATS["token_calls"] += 1
            st = self.t1_check(st)
            defcls, fn = target
            params = [a.arg for a in fn.args.args if a.arg != "self"]
            argabs = tuple(v if v in TRACK else "OTHER" for v, p in zip(argvals, params) if p != "tokens")
            res = []
            for (kind, ret, dlo, dhi, stream, skipped, after_end, exc, origin) in self.summary(defcls, fn, st.stream, st.skipped or bool(st.get("$degraded")), argabs):
                s2 = replace(st.add(dlo, dhi), stream=stream, skipped=skipped, after_end=st.after_end or after_end)
                if kind == "return":
                    if origin == "falloff" and self.value_used(e):
                        FINDINGS["T8"].add(f"{defcls}.{fn.name} can reach its end without `return <value>` "
                                           f"but its result is used as a value at {self.where(e)}")
                    res.append((ret, s2, None, None))
                else:
                    res.append((None, s2, exc, origin))
            return res
        if src.endswith(".is_WSC()"):
            # a token for which is_WSC() holds is not a significant token: un-count it
            return [("TRUE", st.add(-1, -1), None, None), ("FALSE", st, None, None)]
        if src.endswith(".is_end_statement()"):
            return [("TRUE", replace(st, after_end=True), None, None), ("FALSE", st, None, None)]
        res = [("OTHER", st, None, None)]
        for exc in lib_raises(src, self.fam):
            res.append((None, st, exc, self.where(e) + f" `{src[:50]}`"))
        return res

    def value_used(self, call):
        return call in VALUE_USES


# calls whose result is consumed as a value (argument, return value, assignment) vs bare statement / condition
VALUE_USES = set()
for fn_ in ast.walk(tree):
    if isinstance(fn_, ast.FunctionDef):
        for n in ast.walk(fn_):
            if isinstance(n, ast.Return) and isinstance(n.value, ast.Call):
                VALUE_USES.add(n.value)
            if isinstance(n, ast.Assign) and isinstance(n.value, ast.Call):
                VALUE_USES.add(n.value)
            if isinstance(n, ast.Call):
                for a in n.args:
                    a2 = a.value if isinstance(a, ast.Starred) else a
                    if isinstance(a2, ast.Call):
                        VALUE_USES.add(a2)
# a `return f(...)` whose own function is only used in conditions does not count: handled by callers

SKIP_HELPERS = {f.name for c in METHODS.values() for f in c.values() if is_token_fn(f) and is_skip_helper(f)}


def main():
    print("skip helpers:", sorted(SKIP_HELPERS))
    for cls, fam in (("PVLParser", "PVL"), ("ODLParser", "ODL"), ("OmniParser", "Omni")):
        I = Interp(cls, fam)
        res = I.run("parse_module")
        print("=" * 110)
        print(cls, " contexts:", len(I.summ))
        print(" parse_module normal exits:", sorted({(e[1], e[4]) for e in res if e[0] == "return"}, key=str))
        esc = defaultdict(set)
        for ex in res:
            if ex[0] == "raise":
                esc[ex[7]].add(ex[8])
        for k in sorted(esc):
            tag = "documented" if k in ("LexerError", "ParseError") else "T3 ESCAPE"
            print(f"  {tag} {k}")
            for site in sorted(esc[k]):
                print("        origin", site)
        for rule in sorted(FINDINGS):
            print(" ", rule)
            for f in sorted(FINDINGS[rule]):
                print("     ", f)
    print(dict(STATS))


if __name__ == "__main__":
    main()
