"""Throwaway prototype of DESIGN 2.7: regex -> DFA, predicate combinators, witnesses.
Alphabet = explicit representatives (all ASCII + a few non-ASCII class representatives)."""
import re
import re._parser as rp
import re._constants as rc
import importlib.util
import itertools
import _strptime
from collections import deque

REPS = [chr(i) for i in range(128)] + ["\x85", "\xa0", "\xd7", "\xe9", "Ā", "٣", " "]
SIGMA = frozenset(REPS)


class DFA:
    """Complete DFA over SIGMA. states 0..n-1, start 0."""
    def __init__(self, trans, accept):
        self.trans = trans      # list of dict char->state
        self.accept = accept    # set

    @staticmethod
    def from_nfa(nfa_start, nfa_accept, eps, moves):
        def closure(S):
            S = set(S)
            stack = list(S)
            while stack:
                s = stack.pop()
                for t in eps.get(s, ()):
                    if t not in S:
                        S.add(t)
                        stack.append(t)
            return frozenset(S)
        start = closure({nfa_start})
        idx = {start: 0}
        trans = [{}]
        accept = set()
        q = deque([start])
        while q:
            S = q.popleft()
            i = idx[S]
            if nfa_accept in S:
                accept.add(i)
            by = {}
            for s in S:
                for (chars, t) in moves.get(s, ()):
                    for c in chars:
                        by.setdefault(c, set()).add(t)
            for c in SIGMA:
                T = closure(by.get(c, ()))
                if T not in idx:
                    idx[T] = len(trans)
                    trans.append({})
                    q.append(T)
                trans[i][c] = idx[T]
        return DFA(trans, accept).minimize()

    def complement(self):
        return DFA(self.trans, set(range(len(self.trans))) - self.accept)

    def product(self, other, op):
        idx = {(0, 0): 0}
        trans = [{}]
        accept = set()
        q = deque([(0, 0)])
        while q:
            a, b = q.popleft()
            i = idx[(a, b)]
            if op(a in self.accept, b in other.accept):
                accept.add(i)
            for c in SIGMA:
                n = (self.trans[a][c], other.trans[b][c])
                if n not in idx:
                    idx[n] = len(trans)
                    trans.append({})
                    q.append(n)
                trans[i][c] = idx[n]
        return DFA(trans, accept).minimize()

    def minimize(self):
        """Moore partition refinement; automata built here contain reachable states only."""
        n = len(self.trans)
        syms = sorted(SIGMA)
        part = [1 if i in self.accept else 0 for i in range(n)]
        nblocks = len(set(part))
        while True:
            sig, new = {}, []
            for i in range(n):
                key = (part[i],) + tuple(part[self.trans[i][c]] for c in syms)
                new.append(sig.setdefault(key, len(sig)))
            part = new
            if len(sig) == nblocks:
                break
            nblocks = len(sig)
        # renumber blocks so that the start state's block is 0
        remap = {part[0]: 0}
        for b in part:
            remap.setdefault(b, len(remap))
        trans = [None] * len(remap)
        accept = set()
        for i in range(n):
            b = remap[part[i]]
            if trans[b] is None:
                trans[b] = {c: remap[part[self.trans[i][c]]] for c in syms}
            if i in self.accept:
                accept.add(b)
        return DFA(trans, accept)

    def __and__(self, o): return self.product(o, lambda x, y: x and y)
    def __or__(self, o): return self.product(o, lambda x, y: x or y)
    def __sub__(self, o): return self.product(o, lambda x, y: x and not y)
    def __invert__(self): return self.complement()

    def witness(self):
        """shortest accepted string or None; prefers letters/digits for readability"""
        order = sorted(SIGMA, key=lambda c: (not c.isalnum(), not c.isascii(), c))
        prev = {0: None}
        q = deque([0])
        while q:
            s = q.popleft()
            if s in self.accept:
                out = []
                while prev[s] is not None:
                    s, c = prev[s]
                    out.append(c)
                return "".join(reversed(out))
            for c in order:
                t = self.trans[s][c]
                if t not in prev:
                    prev[t] = (s, c)
                    q.append(t)
        return None

    def witnesses(self, k=5):
        res, seen = [], set()
        d = self
        for _ in range(k):
            w = d.witness()
            if w is None:
                break
            res.append(w)
            d = d - lit(w)
        return res

    def empty(self):
        return self.witness() is None


# ---------------------------------------------------------------- regex -> NFA
class NFA:
    def __init__(self):
        self.n = 0
        self.eps = {}
        self.moves = {}

    def new(self):
        self.n += 1
        return self.n - 1

    def e(self, a, b): self.eps.setdefault(a, set()).add(b)
    def m(self, a, chars, b): self.moves.setdefault(a, []).append((frozenset(chars), b))


CATS = {
    rc.CATEGORY_DIGIT: lambda c: c.isdigit() and (c.isascii() or c == "٣"),   # re \d is Unicode-aware for str patterns
    rc.CATEGORY_SPACE: lambda c: c.isspace(),
    rc.CATEGORY_WORD: lambda c: c.isalnum() or c == "_",
}


def charset(items, ignorecase=False):
    neg = False
    chars = set()
    for op, av in items:
        if op is rc.NEGATE:
            neg = True
        elif op is rc.LITERAL:
            chars.add(chr(av))
        elif op is rc.RANGE:
            chars |= {c for c in SIGMA if av[0] <= ord(c) <= av[1]}
        elif op is rc.CATEGORY:
            chars |= {c for c in SIGMA if CATS[av](c)}
        else:
            raise NotImplementedError(op)
    if ignorecase:
        chars |= {c.upper() for c in chars} | {c.lower() for c in chars}
    chars &= SIGMA
    return (SIGMA - chars) if neg else chars


def build(nfa, seq, start, ic):
    cur = start
    for op, av in seq:
        nxt = nfa.new()
        if op is rc.LITERAL:
            ch = chr(av)
            cs = {ch, ch.upper(), ch.lower()} if ic else {ch}
            nfa.m(cur, cs & SIGMA, nxt)
        elif op is rc.NOT_LITERAL:
            nfa.m(cur, SIGMA - {chr(av)}, nxt)
        elif op is rc.ANY:
            nfa.m(cur, SIGMA - {"\n"}, nxt)
        elif op is rc.IN:
            nfa.m(cur, charset(av, ic), nxt)
        elif op is rc.BRANCH:
            for alt in av[1]:
                end = build(nfa, alt, cur, ic)
                nfa.e(end, nxt)
        elif op is rc.SUBPATTERN:
            end = build(nfa, av[3], cur, ic)
            nfa.e(end, nxt)
        elif op in (rc.MAX_REPEAT, rc.MIN_REPEAT):
            lo, hi, sub = av
            c = cur
            for _ in range(lo):
                c = build(nfa, sub, c, ic)
            if hi is rc.MAXREPEAT:
                loop = nfa.new()
                nfa.e(c, loop)
                end = build(nfa, sub, loop, ic)
                nfa.e(end, loop)
                nfa.e(loop, nxt)
            else:
                nfa.e(c, nxt)
                for _ in range(hi - lo):
                    c = build(nfa, sub, c, ic)
                    nfa.e(c, nxt)
        elif op is rc.CATEGORY:
            nfa.m(cur, {c for c in SIGMA if CATS[av](c)}, nxt)
        else:
            raise NotImplementedError(str(op))
        cur = nxt
    return cur


def rx(pattern, ic=False):
    nfa = NFA()
    s = nfa.new()
    end = build(nfa, rp.parse(pattern), s, ic)
    return DFA.from_nfa(s, end, nfa.eps, nfa.moves)


def lit(w): return rx(re.escape(w))
def anyof(words, ic=False): return rx("|".join(re.escape(w) for w in words), ic) if words else rx("[^\\x00-\\U0010ffff]")
ALL = rx(r"[\x00-\U0010ffff]*".replace("\\U0010ffff", "\\uffff")) if False else None


def star(chars):
    nfa = NFA()
    s = nfa.new()
    nfa.m(s, set(chars) & SIGMA, s)
    return DFA.from_nfa(s, s, nfa.eps, nfa.moves)


EVERYTHING = star(SIGMA)


def contains_any_char(chars):
    cs = set(chars) & SIGMA
    if not cs:
        return ~EVERYTHING
    nfa = NFA()
    a, b = nfa.new(), nfa.new()
    nfa.m(a, SIGMA, a)
    nfa.m(a, cs, b)
    nfa.m(b, SIGMA, b)
    return DFA.from_nfa(a, b, nfa.eps, nfa.moves)


def contains_substr(sub):
    nfa = NFA()
    a = nfa.new()
    nfa.m(a, SIGMA, a)
    cur = a
    for ch in sub:
        n = nfa.new()
        nfa.m(cur, {ch} & SIGMA, n)
        cur = n
    nfa.m(cur, SIGMA, cur)
    return DFA.from_nfa(a, cur, nfa.eps, nfa.moves)


def union(ds):
    ds = list(ds)
    out = ds[0]
    for d in ds[1:]:
        out = out | d
    return out


# ---------------------------------------------------------------- library models
INT10 = rx(r"[+-]?\d(_?\d)*")
FLOAT = rx(r"[+-]?(\d(_?\d)*\.?(\d(_?\d)*)?|\.\d(_?\d)*)([eE][+-]?\d(_?\d)*)?") | rx(r"[+-]?(inf|infinity|nan)", ic=True)
TRE = _strptime.TimeRE()


def strptime_dfa(fmt):
    # as _strptime: literal chars escaped, directives replaced, IGNORECASE
    return rx(TRE.pattern(fmt), ic=True)


# ---------------------------------------------------------------- grammar tables (resolved by loading grammar.py alone)
spec = importlib.util.spec_from_file_location("_g", "/repo/pvl/grammar.py")
G = importlib.util.module_from_spec(spec)
spec.loader.exec_module(G)


def allowed_chars(g):
    # would come from the interval interpreter (2.8); here: hand result of that analysis
    name = type(g).__name__
    if name in ("PVLGrammar", "ISISGrammar"):
        return {c for c in SIGMA if (9 <= ord(c) <= 13) or (32 <= ord(c) <= 126) or (160 <= ord(c) <= 255)}
    if name in ("ODLGrammar", "PDSGrammar"):
        return {c for c in SIGMA if ord(c) <= 127}
    return set(SIGMA)


def reader_classes(g, decoder):
    """Languages of the non-string classes of decode_simple_value for decoder in {PVL, ODL, PDS, Omni}."""
    cls = {}
    cls["keyword(none/true/false)"] = anyof([g.none_keyword, g.true_keyword, g.false_keyword], ic=True)
    q = [rx(re.escape(qc) + r"[\x00-￿]*" + re.escape(qc)) for qc in g.quotes]
    # [\x00-￿] over our alphabet == SIGMA
    cls["quoted"] = union(q)
    if decoder == "PVL":
        cls["based-int"] = union(rx(r.pattern) for r in (g.binary_re, g.octal_re, g.hex_re))
    else:
        cls["based-int"] = rx(g.nondecimal_re.pattern)
    cls["decimal"] = INT10 | FLOAT
    dt = union(strptime_dfa(f) for f in list(g.date_formats) + list(g.time_formats) + list(g.datetime_formats))
    leaps = [r for r in (g.leap_second_Ymd_re, g.leap_second_Yj_re) if r is not None]
    if leaps:
        dt = dt | union(rx(r.pattern) for r in leaps)
    if decoder in ("ODL", "Omni"):
        tz = rx(r"[+-](0?[0-9]|1[0-2])(" + g._M_frag.replace("(?P<minute>", "(") + ")?")
        dt = dt | concat(dt, tz)
    cls["date-time"] = dt
    cls["parser-special(reserved kw / delimiter)"] = anyof(sorted(g.reserved_keywords) + list(g.delimiters), ic=True)
    return cls


def concat(a, b):
    """language concatenation via NFA over two DFAs"""
    nfa = NFA()
    A = [nfa.new() for _ in a.trans]
    B = [nfa.new() for _ in b.trans]
    for i, row in enumerate(a.trans):
        by = {}
        for c, t in row.items():
            by.setdefault(t, set()).add(c)
        for t, cs in by.items():
            nfa.m(A[i], cs, A[t])
    for i, row in enumerate(b.trans):
        by = {}
        for c, t in row.items():
            by.setdefault(t, set()).add(c)
        for t, cs in by.items():
            nfa.m(B[i], cs, B[t])
    for i in a.accept:
        nfa.e(A[i], B[0])
    end = nfa.new()
    for i in b.accept:
        nfa.e(B[i], end)
    return DFA.from_nfa(A[0], end, nfa.eps, nfa.moves)


# ---------------------------------------------------------------- writer predicates (hand translation of the source;
# the real tool derives these from the AST of needs_quotes / is_unquoted_string / is_identifier / encode_string)
def token_is_unquoted_string(g, classes):
    bad = contains_any_char(g.reserved_characters)
    for pair in g.comments:
        bad = bad | contains_substr(pair[0]) | contains_substr(pair[1])
    bad = bad | classes["decimal"] | classes["based-int"] | classes["date-time"]
    bad = bad | contains_any_char(g.whitespace)
    return ~bad


def pvl_bare(g, own_classes):
    needs = contains_any_char(g.whitespace) | anyof(sorted(g.reserved_keywords)) | ~token_is_unquoted_string(g, own_classes)
    return ~needs & star(allowed_chars(g))


IDENT = rx(r"[A-Za-z]([A-Za-z0-9_]*[A-Za-z0-9])?")


def odl_bare(g, own_classes):
    return IDENT & star(allowed_chars(g))


def main():
    cfgs = {
        "PVLEncoder": (G.PVLGrammar(), "PVL", pvl_bare),
        "ISISEncoder": (G.ISISGrammar(), "PVL", pvl_bare),
        "ODLEncoder": (G.ODLGrammar(), "ODL", odl_bare),
        "PDSLabelEncoder": (G.PDSGrammar(), "ODL", odl_bare),
    }
    omni_g = G.OmniGrammar()
    for name, (g, dec, bare_fn) in cfgs.items():
        own = reader_classes(g, dec)
        bare = bare_fn(g, own)
        print(f"== {name}: bare-language DFA states={len(bare.trans)}  sample bare strings={bare.witnesses(3)}")
        for reader_name, classes in (("own strict reader", own), ("Omni reader", reader_classes(omni_g, "Omni"))):
            for cname, L in classes.items():
                inter = bare & L
                ws = inter.witnesses(4)
                print(f"   S1 {reader_name:17s} {cname:42s} {'EMPTY' if not ws else 'WITNESS ' + repr(ws)}")
        # O2: last characters of bare strings vs first char of the Omni rewrite pattern '-'
        ends_dash = bare & rx(r"[\x00-￿]*-")
        print(f"   O2 bare strings ending in '-': {ends_dash.witnesses(2) or 'EMPTY'}")
    # N1: decimal model vs strings with '_' or alphabetic specials
    n1 = (INT10 | FLOAT) & (contains_any_char("_") | rx(r"[+-]?[A-Za-z]+", ic=True))
    print("N1 int()/float() accept beyond digits:", n1.witnesses(6))
    # TB8: prefix agreement
    for gname in ("PVLGrammar", "ODLGrammar", "OmniGrammar"):
        g = getattr(G, gname)()
        full = union(rx(r.pattern) for r in (g.binary_re, g.octal_re, g.hex_re)) if gname == "PVLGrammar" else rx(g.nondecimal_re.pattern)
        pre = rx(g.nondecimal_pre_re.pattern)
        # prefix up to and including first '#': strings w in pre such that w . anything in full  <=> full ⊆ pre·Σ*  and every pre-string extends
        ext = concat(pre, EVERYTHING)
        print(f"TB8 {gname}: full ⊆ pre·Σ* : {(full - ext).witness() is None};  pre strings with no completion: {(pre - prefix_closure(full)).witnesses(2) or 'none'}")


def prefix_closure(d):
    # states from which an accepting state is reachable become accepting
    n = len(d.trans)
    rev = {i: set() for i in range(n)}
    for i, row in enumerate(d.trans):
        for c, t in row.items():
            rev[t].add(i)
    good = set(d.accept)
    stack = list(good)
    while stack:
        s = stack.pop()
        for p in rev[s]:
            if p not in good:
                good.add(p)
                stack.append(p)
    return DFA(d.trans, good)


if __name__ == "__main__":
    main()
